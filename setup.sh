#!/bin/sh
# Offline set-up after a fresh restore: nothing is downloaded; scratch space only.
set -e
cd "$(dirname "$0")"
mkdir -p .work evidence
export CARGO_NET_OFFLINE=true
# warm the expansion target (speeds up the first check; failures here are not fatal)
(cd /repo && CARGO_TARGET_DIR=/verif/.work/expand-target cargo +nightly rustc -p rand_xoshiro --lib --offline -- -Zunpretty=expanded >/dev/null 2>&1) || true
exit 0
