#!/usr/bin/env python3
"""Sensitivity sweep (DESIGN section 6 'canaries'): single-token mutants of the real source, applied to a scratch worktree
(/tmp/repo2, selected through RNGS_REPO so that /repo is never touched), each run through the quick check of the property it
should break.  Records for every mutant whether the existing tests notice it and what the check answered.
Only Verus/static-decided properties are exercised here (the Kani/replay crates have /repo paths compiled in)."""
import json, os, subprocess, sys, time
WT = '/tmp/repo2'
M = [
 # (id, file, old, new, property, crate)
 ('x256-rot', 'rand_xoshiro/src/common.rs', '$self.s[3] = $self.s[3].rotate_left(45);', '$self.s[3] = $self.s[3].rotate_left(44);', 'C01', 'rand_xoshiro'),
 ('x256-shift', 'rand_xoshiro/src/common.rs', 'let t = $self.s[1] << 17;', 'let t = $self.s[1] << 16;', 'C01', 'rand_xoshiro'),
 ('x512-engine-order', 'rand_xoshiro/src/common.rs', '        $self.s[7] ^= $self.s[3];\n        $self.s[3] ^= $self.s[4];', '        $self.s[3] ^= $self.s[4];\n        $self.s[7] ^= $self.s[3];', 'C01', 'rand_xoshiro'),
 ('pp-rot', 'rand_xoshiro/src/xoshiro256plusplus.rs', 'plusplus_u64!(self.s[0], self.s[3], 23)', 'plusplus_u64!(self.s[0], self.s[3], 22)', 'C01', 'rand_xoshiro'),
 ('ss-mult', 'rand_xoshiro/src/common.rs', '$x.wrapping_mul(5).rotate_left(7).wrapping_mul(9)', '$x.wrapping_mul(5).rotate_left(7).wrapping_mul(7)', 'C01', 'rand_xoshiro'),
 ('x512ss-operand', 'rand_xoshiro/src/xoshiro512starstar.rs', 'starstar_u64!(self.s[1])', 'starstar_u64!(self.s[0])', 'C01', 'rand_xoshiro'),
 ('xoro64-shift', 'rand_xoshiro/src/common.rs', '$self.s0.rotate_left(26) ^ $self.s1 ^ ($self.s1 << 9)', '$self.s0.rotate_left(26) ^ $self.s1 ^ ($self.s1 << 8)', 'C01', 'rand_xoshiro'),
 ('splitmix-shift', 'rand_xoshiro/src/splitmix64.rs', 'z = (z ^ (z >> 30)).wrapping_mul(0xbf58476d1ce4e5b9);', 'z = (z ^ (z >> 31)).wrapping_mul(0xbf58476d1ce4e5b9);', 'C01', 'rand_xoshiro'),
 ('splitmix-mix4', 'rand_xoshiro/src/splitmix64.rs', 'z = (z ^ (z >> 28)).wrapping_mul(0xCB24D0A5C88C35B3);', 'z = (z ^ (z >> 27)).wrapping_mul(0xCB24D0A5C88C35B3);', 'C01', 'rand_xoshiro'),
 ('half-upper-to-lower', 'rand_xoshiro/src/xoshiro256plusplus.rs', '(self.next_u64() >> 32) as u32', 'self.next_u64() as u32', 'C05', 'rand_xoshiro'),
 ('half-lower-to-upper', 'rand_xoshiro/src/xoroshiro128plusplus.rs', 'self.next_u64() as u32', '(self.next_u64() >> 32) as u32', 'C05', 'rand_xoshiro'),
 ('jump-bound', 'rand_xoshiro/src/common.rs', '        for j in &JUMP {\n            for b in 0..64 {\n                if (j & 1 << b) != 0 {\n                    s0 ^= $self.s[0];', '        for j in &JUMP {\n            for b in 0..63 {\n                if (j & 1 << b) != 0 {\n                    s0 ^= $self.s[0];', 'C06', 'rand_xoshiro'),
 ('jump-const', 'rand_xoshiro/src/xoshiro256plus.rs', '0x180ec6d33cfd0aba', '0x180ec6d33cfd0abb', 'C06', 'rand_xoshiro'),
 ('longjump-const', 'rand_xoshiro/src/xoshiro512plus.rs', '0x11467fef8f921d28', '0x11467fef8f921d29', 'C06', 'rand_xoshiro'),
 ('jump-acc-dropped', 'rand_xoshiro/src/common.rs', '                    s[6] ^= $self.s[6];\n', '', 'C06', 'rand_xoshiro'),
 ('zero-seed-dropped', 'rand_xoshiro/src/xoshiro256starstar.rs', '        deal_with_zero_seed!(seed, Self);\n', '', 'C08', 'rand_xoshiro'),
 ('zero-seed-target', 'rand_xoshiro/src/common.rs', '        if $seed == [0; $bytes] {\n            return $Self::seed_from_u64(0);', '        if $seed == [0; $bytes] {\n            return $Self::seed_from_u64(1);', 'C08', 'rand_xoshiro'),
 ('xorshift-shl', 'rand_xorshift/src/lib.rs', 'let t = x ^ (x << 11);', 'let t = x ^ (x << 10);', 'C04', 'rand_xorshift'),
 ('xorshift-shr', 'rand_xorshift/src/lib.rs', 'self.w = w_ ^ (w_ >> 19) ^ (t ^ (t >> 8));', 'self.w = w_ ^ (w_ >> 18) ^ (t ^ (t >> 8));', 'C04', 'rand_xorshift'),
 ('xorshift-badseed', 'rand_xorshift/src/lib.rs', 'seed_u32 = [0xBAD_5EED, 0xBAD_5EED, 0xBAD_5EED, 0xBAD_5EED];', 'seed_u32 = [0xBAD_5EED, 0xBAD_5EED, 0xBAD_5EED, 0];', 'C08', 'rand_xorshift'),
 ('xorshift-word-order', 'rand_xorshift/src/lib.rs', '            y: w(u32::from_le_bytes([b[4], b[5], b[6], b[7]])),\n            z: w(u32::from_le_bytes([b[8], b[9], b[10], b[11]])),\n            w: w(u32::from_le_bytes([b[12], b[13], b[14], b[15]])),\n        }\n    }\n\n    fn try_from_rng', '            y: w(u32::from_le_bytes([b[8], b[9], b[10], b[11]])),\n            z: w(u32::from_le_bytes([b[4], b[5], b[6], b[7]])),\n            w: w(u32::from_le_bytes([b[12], b[13], b[14], b[15]])),\n        }\n    }\n\n    fn try_from_rng', 'C09', 'rand_xorshift'),
 ('hc-rot', 'rand_hc/src/hc128.rs', 'let temp0 = p[i511].rotate_right(23);', 'let temp0 = p[i511].rotate_right(22);', 'C02', 'rand_hc'),
 ('hc-phase-bit', 'rand_hc/src/hc128.rs', 'if self.counter1024 & 512 == 0 {', 'if self.counter1024 & 256 == 0 {', 'C02', 'rand_hc'),
 ('hc-q-index', 'rand_hc/src/hc128.rs', 'self.step_q(cc + 15, dd + 0, cc + 12, cc + 5, cc + 3);\n        }\n        self.counter1024 = self.counter1024.wrapping_add(16);', 'self.step_q(cc + 15, dd + 0, cc + 12, cc + 5, cc + 2);\n        }\n        self.counter1024 = self.counter1024.wrapping_add(16);', 'C02', 'rand_hc'),
 ('hc-iv-key', 'rand_hc/src/hc128.rs', 't[8..12].copy_from_slice(iv);', 't[8..12].copy_from_slice(key);', 'C02', 'rand_hc'),
 ('hc-f2', 'rand_hc/src/hc128.rs', 'x.rotate_right(17) ^ x.rotate_right(19) ^ (x >> 10)', 'x.rotate_right(17) ^ x.rotate_right(19) ^ (x >> 11)', 'C02', 'rand_hc'),
 ('hc-warmup', 'rand_hc/src/hc128.rs', 'for _ in 0..64 {\n            core.sixteen_steps()', 'for _ in 0..63 {\n            core.sixteen_steps()', 'C02', 'rand_hc'),
 ('hc-xor-dropped', 'rand_hc/src/hc128.rs', '        temp3 ^ q[i]\n', '        temp3\n', 'C02', 'rand_hc'),
 ('hc-eq-counter', 'rand_hc/src/hc128.rs', '&self.t[..] == &rhs.t[..] && self.counter1024 == rhs.counter1024', '&self.t[..] == &rhs.t[..]', 'C10', 'rand_hc'),
 ('hc-rng-eq-index', 'rand_hc/src/hc128.rs', 'self.0.core == rhs.0.core && self.0.index() == rhs.0.index()', 'self.0.core == rhs.0.core', 'C10', 'rand_hc'),
 ('isaac-shift', 'rand_isaac/src/isaac.rs', 'rngstep(&mut self.mem, results, a ^ (a >> 6 ),  &mut a, &mut b, i + 1, m, m2);\n            rngstep(&mut self.mem, results, a ^ (a << 2 ),  &mut a, &mut b, i + 2, m, m2);\n            rngstep(&mut self.mem, results, a ^ (a >> 16),  &mut a, &mut b, i + 3, m, m2);\n        }\n\n        self.a = a;', 'rngstep(&mut self.mem, results, a ^ (a >> 6 ),  &mut a, &mut b, i + 1, m, m2);\n            rngstep(&mut self.mem, results, a ^ (a << 2 ),  &mut a, &mut b, i + 2, m, m2);\n            rngstep(&mut self.mem, results, a ^ (a >> 15),  &mut a, &mut b, i + 3, m, m2);\n        }\n\n        self.a = a;', 'C03', 'rand_isaac'),
 ('isaac-ind', 'rand_isaac/src/isaac.rs', '*b = x + ind(mem, y, 2 + RAND_SIZE_LEN);', '*b = x + ind(mem, y, 3 + RAND_SIZE_LEN);', 'C03', 'rand_isaac'),
 ('isaac-results-order', 'rand_isaac/src/isaac.rs', 'results[RAND_SIZE - 1 - base - m] = b.0;', 'results[base + m] = b.0;', 'C03', 'rand_isaac'),
 ('isaac-mix', 'rand_isaac/src/isaac.rs', '*e ^= *f << 10; *h += *e; *f += *g;', '*e ^= *f << 11; *h += *e; *f += *g;', 'C03', 'rand_isaac'),
 ('isaac-passes', 'rand_isaac/src/isaac.rs', '        Self::init(key, 1)', '        Self::init(key, 2)', 'C09', 'rand_isaac'),
 ('isaac64-not', 'rand_isaac/src/isaac64.rs', 'rngstep(&mut self.mem, results, !(a ^ (a << 21)), &mut a, &mut b, i + 0, m, m2);\n            rngstep(&mut self.mem, results,   a ^ (a >> 5 ),  &mut a, &mut b, i + 1, m, m2);\n            rngstep(&mut self.mem, results,   a ^ (a << 12),  &mut a, &mut b, i + 2, m, m2);\n            rngstep(&mut self.mem, results,   a ^ (a >> 33),  &mut a, &mut b, i + 3, m, m2);\n        }\n\n        m = MIDPOINT;', 'rngstep(&mut self.mem, results,  (a ^ (a << 21)), &mut a, &mut b, i + 0, m, m2);\n            rngstep(&mut self.mem, results,   a ^ (a >> 5 ),  &mut a, &mut b, i + 1, m, m2);\n            rngstep(&mut self.mem, results,   a ^ (a << 12),  &mut a, &mut b, i + 2, m, m2);\n            rngstep(&mut self.mem, results,   a ^ (a >> 33),  &mut a, &mut b, i + 3, m, m2);\n        }\n\n        m = MIDPOINT;', 'C03', 'rand_isaac'),
 ('isaac64-eq-field', 'rand_isaac/src/isaac64.rs', '&& self.b == other.b', '', 'C10', 'rand_isaac'),
 ('jit-tap', 'rand_jitter/src/lib.rs', 'data ^= (data >> 60) & 1;', 'data ^= (data >> 59) & 1;', 'C12', 'rand_jitter'),
 ('jit-rot', 'rand_jitter/src/lib.rs', 'self.data = self.data.rotate_left(7);', 'self.data = self.data.rotate_left(8);', 'C12', 'rand_jitter'),
 ('jit-rounds', 'rand_jitter/src/lib.rs', 'for _ in 0..self.rounds {', 'for _ in 1..self.rounds {', 'C12', 'rand_jitter'),
 ('jit-stir-or', 'rand_jitter/src/lib.rs', 'mixer ^= CONSTANT & mask;', 'mixer |= CONSTANT & mask;', 'C15', 'rand_jitter'),
 ('jit-lfsr-shift', 'rand_jitter/src/lib.rs', '                data ^= (data >> 22) & 1;\n                data = data.rotate_left(1);', '                data ^= (data >> 22) & 1;\n                data = data << 1;', 'C15', 'rand_jitter'),
 ('jit-stuck-weaker', 'rand_jitter/src/lib.rs', 'current_delta == 0 || delta2 == 0 || delta3 == 0', 'current_delta == 0 || delta2 == 0', 'C12', 'rand_jitter'),
 ('jit-clone-half', 'rand_jitter/src/lib.rs', '            data_half_used: false,\n        }\n    }\n}', '            data_half_used: self.data_half_used,\n        }\n    }\n}', 'C16', 'rand_jitter'),
 ('jit-u32-high', 'rand_jitter/src/lib.rs', '            (self.data >> 32) as u32', '            (self.data >> 31) as u32', 'C16', 'rand_jitter'),
 ('jit-tt-backwards', 'rand_jitter/src/lib.rs', 'if time_backwards > 3 {', 'if time_backwards > 4 {', 'C13', 'rand_jitter'),
 ('jit-tt-table', 'rand_jitter/src/lib.rs', '0, 0, 128, 81, 64, 56, 50, 46, 43, 41, 39, 38, 36, 35, 34, 33,', '0, 0, 128, 81, 64, 56, 50, 46, 43, 41, 39, 38, 36, 35, 34, 31,', 'C13', 'rand_jitter'),
 ('jit-tt-ninety', 'rand_jitter/src/lib.rs', 'if count_stuck > (TESTLOOPCOUNT * 9 / 10) {', 'if count_stuck > (TESTLOOPCOUNT * 10 / 10) {', 'C13', 'rand_jitter'),
 ('jit-overflow', 'rand_jitter/src/lib.rs', 'mem[index] = mem[index].wrapping_add(1);', 'mem[index] = mem[index] + 1;', 'C14', 'rand_jitter'),
 ('hc-counter-plain-add', 'rand_hc/src/hc128.rs', 'self.counter1024 = self.counter1024.wrapping_add(16);', 'self.counter1024 = self.counter1024 + 16;', 'C14', 'rand_hc'),
]

def sh(cmd, **kw):
    return subprocess.run(cmd, shell=True, stdout=subprocess.PIPE, stderr=subprocess.STDOUT, text=True, **kw)

def main():
    only = set(sys.argv[1:])
    res = []
    for mid, f, old, new, prop, crate in M:
        if only and mid not in only:
            continue
        sh('git -C %s checkout -- .' % WT)
        p = os.path.join(WT, f)
        s = open(p).read()
        if s.count(old) < 1:
            res.append(dict(id=mid, prop=prop, error='pattern not found'))
            print(mid, 'PATTERN NOT FOUND'); continue
        open(p, 'w').write(s.replace(old, new, 1))
        t = sh('cd %s && CARGO_TARGET_DIR=%s/target cargo test -p %s --offline 2>&1 | grep -E "^test result|^error" ' % (WT, WT, crate))
        lines = t.stdout.strip().splitlines()
        compiles = not any(l.startswith('error') for l in lines) and bool(lines)
        tests_pass = compiles and all('FAILED' not in l for l in lines)
        t0 = time.time()
        c = sh('cd /verif && RNGS_REPO=%s ./check %s' % (WT, prop))
        r = dict(id=mid, prop=prop, file=f, compiles=compiles, existing_tests_pass=tests_pass, check_exit=c.returncode, wall=round(time.time() - t0, 1),
                 first_failed=[l.strip() for l in c.stdout.splitlines() if 'failed obligation' in l][:1])
        res.append(r)
        print(mid, prop, 'tests_pass=%s' % tests_pass, 'check_exit=%d' % c.returncode, r['first_failed'][:1])
        sys.stdout.flush()
    sh('git -C %s checkout -- .' % WT)
    json.dump(res, open('/verif/.work/t/mutants.json', 'w'), indent=1)
    killed = [r for r in res if r.get('check_exit') == 1]
    print('mutants: %d, check exit 1: %d, exit 2: %d, exit 0: %d' % (len(res), len(killed), len([r for r in res if r.get('check_exit') == 2]), len([r for r in res if r.get('check_exit') == 0])))

if __name__ == '__main__':
    main()
