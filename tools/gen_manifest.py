#!/usr/bin/env python3
"""Regenerate MANIFEST.json from vf/registry.py (claimed properties) and properties.jsonl."""
import json, os, sys
ROOT = os.path.dirname(os.path.dirname(os.path.abspath(__file__)))
sys.path.insert(0, ROOT)
from vf import registry

props = [json.loads(l) for l in open(os.path.join(ROOT, 'properties.jsonl'))]
NA = {
    'C07': 'full period 2^n-1 is a closed number-theoretic theorem about the reference transition (primitivity of its characteristic polynomial; needs the factorisation of 2^n-1 up to n=512): no contract on a function of /repo expresses or decides it; the code-dependent residue is decided elsewhere: the step equals the reference T (C01/C04), T is injective and maps only 0 to 0 so a non-zero state never steps to zero (lemmas *_injective / *_zero_only_from_zero under C08), no seeding path yields zero (C08) (DESIGN.md section 8)',
}
TECH = {
 'C01': 'Verus contracts on the real next_*/from_seed of the 15 generators against reference spec functions',
 'C02': 'Verus contracts on step_p/step_q/generate/sixteen_steps/init against Wu\'s HC-128 spec; forwarding obligations for the BlockRng newtype; Kani on rand_core BlockRng',
 'C03': 'Verus contracts on ind/rngstep/generate/mix/init against Jenkins\' ISAAC spec; forwarding obligations; Kani (from_seed layout, BlockRng)',
 'C04': 'Verus contracts on XorShiftRng::next_u32/from_seed against xor128',
 'C05': 'Verus trait-level stream-projection contracts on every generator + rand_core impls verified generically; Kani function-level proofs on rand_core BlockRng/BlockRng64; forwarding obligations',
 'C06': 'Verus loop invariants on the real jump()/long_jump() against poly(T, J_ref) + Verus-verified executable checker for J_ref(T) == T^(2^k)',
 'C08': 'Verus contracts on from_seed/seed_from_u64/XorShift redraw loop + lemmas (never zero, injective); Kani harnesses on the defaulted from_rng/try_from_rng of every type',
 'C09': 'Verus contracts on seed_from_u64 (xoshiro family, ISAAC); Kani harnesses with recording sources for from_rng/try_from_rng of every type and PCG32 expansion; forwarding obligations',
 'C10': 'Verus contracts on clone/eq of every generator and core (== iff all state equal; every operation determines result and final state from the old state)',
 'C11': 'Kani: bincode round trip through the real serde derive output for an arbitrary state of each of the 16 small generators; bounded native sweep for IsaacRng/Isaac64Rng',
 'C12': 'Verus contracts on every function of the JitterRng collector against the Jitterentropy step spec (timer readings existentially quantified)',
 'C13': 'Verus contract on test_timer over the ghost log of its 400 probes',
 'C14': 'Verus built-in obligations (overflow, index, shift, division, panics as callee preconditions) in every function under contract',
 'C15': 'Verus lemmas (explicit inverses, bit-peeling induction, affine-linearity on a basis) over the spec functions the code is proved equal to',
 'C16': 'Verus contracts on JitterRng next_u32/next_u64/fill_bytes/clone over the pending-half flag',
 'C17': 'frame obligation on rustc\'s expansion (Debug bodies do not read self) + Kani: formatted text of an arbitrary state equals the literal',
 'C18': 'Verus built-in obligations (no check can fire) + per-function identity of rustc\'s expansion across {debug assertions} x {serde}',
 'C19': 'frame obligations on rustc\'s expansion (no static / interior-mutable / ambient state in any function) + Send/Sync obligations discharged by rustc',
}
PENDING = 'check not built yet (build in progress; see DESIGN.md section 5)'
checks = []
na = []
for p in props:
    pid = p['id']
    if pid in registry.PROPS:
        s = registry.PROPS[pid]
        checks.append(dict(
            property_id=pid,
            quick_cmd='./check %s --tier quick' % pid,
            thorough_cmd='./check %s --tier thorough' % pid,
            evidence_file='/verif/evidence/%s.json' % pid,
            replay_cmd_template='./check %s --replay {path}' % pid,
            engine=s.get('engine', 'verus+kani contracts'),
            level_claimed=dict(category=s.get('level', 'proof'), text=s.get('explanation', ''), design_ref=s.get('design_ref', 'DESIGN.md section 5 ' + pid)),
            level_note='; '.join(s.get('trusted_base', []) + s.get('assumptions', [])),
            technique=s.get('technique', TECH.get(pid, 'contract-based deductive verification')),
        ))
    else:
        na.append(dict(property_id=pid, reason=NA.get(pid, PENDING)))
hooks = json.load(open(os.path.join(ROOT, 'hooks.json'))) if os.path.exists(os.path.join(ROOT, 'hooks.json')) else dict(source_commits=[])
m = dict(
    version=1,
    setup_cmd='cd /verif && ./setup.sh',
    hooks=dict(
        guard='rngs_verif',
        enable="RUSTFLAGS='--cfg rngs_verif' RNGS_VERIF_DIR=/verif cargo kani … (the guard is only ever combined with cfg(kani)); the Verus side needs no hook: it re-extracts the functions from rustc's own expansion of /repo on every run",
        baseline_off_cmd='cd /repo && cargo test --workspace --no-fail-fast --offline',
        source_commits=hooks.get('source_commits', []),
        add_only=True),
    engines=[
        dict(name='verus-weaver', path='/verif/vf', serves_properties=sorted(registry.PROPS), kind_free_text='rustc -Zunpretty=expanded of /repo -> slice -> dialect rules -> weave contracts -> Verus 0.2026.09.13 (Z3) -> classify diagnostics per obligation'),
        dict(name='kani-harnesses', path='/verif/kani', serves_properties=[], kind_free_text='Kani 0.68 / CBMC 6.11 proof harnesses on the real compiled crates and the rand_core dependency'),
    ],
    checks=checks,
    not_applicable=na,
    notes='exit codes of ./check: 0 holds, 1 violation (VIOLATION line), 2 undecided (never an alarm). See DESIGN.md.')
json.dump(m, open(os.path.join(ROOT, 'MANIFEST.json'), 'w'), indent=1)
print('claimed:', [c['property_id'] for c in checks])
