#!/usr/bin/env python3
"""Write /verif/seeded/<id>/meta.json from the stored notes, the confirmation log and the recorded check outcomes."""
import json, os, re, sys
ROOT = os.path.dirname(os.path.dirname(os.path.abspath(__file__)))
NEEDS = {
 'C01': 'a non-zero seed whose state words XOR to zero (e.g. from_seed([42; 32]), s0 == s1): treated like the zero seed',
 'C02': 'a seed whose last two IV words differ (W[15] gets IV[2] instead of IV[3]); all test vectors have IV[2] == IV[3] == 0',
 'C03': 'a seed with a non-zero most significant byte in some word (top byte dropped by an exclusive range + zip truncation)',
 'C04': 'a non-zero seed whose four words sum to 0 mod 2^32 (zero-seed guard by wrapping sum)',
 'C05': 'fill_bytes(n) with n % 8 == 4 (tail of exactly 4 bytes served from next_u64 in a crate-local copy of fill_bytes_via_next)',
 'C06': 'only Xoroshiro128PlusPlus (engine 49/21/28 given the jump polynomials of the 24/16/37 engine by a shared macro); commutation still holds',
 'C08': 'only seed_from_u64(0x61c8864680b583eb) of the two 64-bit-state generators (the one argument whose SplitMix64 output is 0)',
 'C09': 'a source whose first 16 bytes are all zero, through try_from_rng (no redraw) - disagrees with from_rng',
 'C10': 'two Hc128Rng on the same block, one at read position 15 and one at 16 (index clamped one slot too low in eq)',
 'C11': 'Isaac64Rng snapshot taken with index == 256 and a half word pending, continued with next_u32',
 'C12': 'two consecutive measurement readings more than 2^31 apart (full-width delta folded instead of the 32-bit one)',
 'C13': 'a probe whose two readings differ by a non-zero exact multiple of 2^32 (zero truncated delta no longer rejected)',
 'C14': 'a timer whose readings cross 2^63 between two consecutive readings (signed i64 subtraction overflows in dev builds)',
 'C15': 'any two pools whose XOR lies in the 18-dimensional kernel created by a one-digit typo in the stir constant',
 'C16': 'next_u32(); fill_bytes(len >= 8); next_u32(): the pending-half flag survives fill_bytes and a half is handed out twice',
 'C17': 'only the fresh generator in the zero-seed preset state (from_seed([0; 16])): Debug prints a state-dependent marker',
 'C18': 'a scripted timer that produces at least one stuck measurement: debug_assert_ne! reads the timer only with debug assertions on',
 'C19': 'IsaacRng::from_seed(pad(X)) and seed_from_u64(X) constructed back to back (process-wide memo keyed on the key, not the rounds)',
 # ---- round 2 (agents were told what round 1 had tried and asked for a different site / mechanism) ----
 'C01-r2': 'Xoshiro128PlusPlus::from_seed with seed[1] != seed[11] (hand-written LE decode takes the top byte of word 2 from seed byte 1); first wrong output at stream position 2',
 'C02-r2': 'a seed with a non-zero byte 3 in one of the eight key/IV words (Hc128Core::from_seed decodes byte 3 with << 16 instead of << 24)',
 'C03-r2': 'a state in which both indirections of one rngstep select the slot written by that step (about 2^-16 per step; all-zero seed: first wrong word is #10240): cached first indirect word reused after the store',
 'C04-r2': 'XorShiftRng::from_seed with seed[11] >= 0x10 (28-bit mask on the third word); seed[11] = 0x80 alone yields the all-zero state',
 'C05-r2': 'JitterRng: next_u32(); next_u64(); next_u32() - next_u64 no longer clears the pending-half flag, the high half of the word it returned is handed out again',
 'C06-r2': 'jump()/long_jump() of the three xoshiro256 generators: the loop steps before it tests the polynomial bit, i.e. computes T*J(T): 2^128+1 / 2^192+1 steps; commutation still holds',
 'C08-r2': 'XorShiftRng::try_from_rng with a block whose first 12 bytes are zero and last 4 are not: w built from the bytes of z, all-zero state accepted',
 'C09-r2': 'IsaacRng::seed_from_u64(x) with x >= 2^60 (28-bit mask on the high key word)',
 'C10-r2': 'two Isaac64Core with equal mem and a, (b, c) vs (b+1, c-1): eq compares b + c only; equal now, different after two blocks',
 'C11-r2': 'Xoroshiro64StarStar snapshot taken in a state with exactly one zero word (serde(from) shadow struct remaps `s0 == 0 || s1 == 0` to seed_from_u64(0))',
 'C12-r2': 'a stuck measurement with a non-zero delta (repeated delta or constant second difference): prev_time only advanced for accepted measurements',
 'C13-r2': 'a zero reading or a zero-delta probe only among the 100 warm-up probes: the warm-up `continue` moved above the NoTimer / CoarseTimer checks',
 'C14-r2': 'about one seed in 5000 (e.g. Hc128Rng::seed_from_u64(1206)): plain `+` instead of wrapping_add in the HC-128 table expansion overflows in dev builds',
 'C15-r2': 'two time values differing only in bit 63 (raw 64-bit readings folded by timer_stats / test_timer): LFSR fold loop bound 1..65 -> 1..64',
 'C16-r2': 'next_u32(); clone(); clone.next_u32(): Clone copies data_half_used, the clone hands out the half its original still holds',
 'C17-r2': 'JitterRng after at least one collection: Debug prints mem_prev_index (derived from timer ^ pool)',
 'C18-r2': 'XorShiftRng::fill_bytes(&mut []) : `(dest.len() - 1) / 4` panics with overflow checks on, wraps to a harmless no-op with them off',
 'C19-r2': 'another JitterRng instance completes test_timer() before this one is constructed: new_with_timer takes its rounds from a process-wide atomic',
 # ---- round 3: additive changes only (new overrides, new impls, new fast paths; existing bodies untouched) ----
 'C05-r3': 'IsaacRng::fill_bytes gets a bulk fast path in front of the existing forwarding: a request of more than one whole block issued mid-block lets a newer block overtake the buffered words (words counted as bytes)',
 'C08-r3': 'Xoshiro256PlusPlus overrides try_from_rng (four try_next_u64 draws, builds the state itself): a source delivering an all-zero block yields the zero state',
 'C09-r3': 'Xoshiro128PlusPlus overrides try_from_rng with four try_next_u32 draws: disagrees with from_rng for every source whose next_u32 is not the 4-byte chunking of its fill_bytes (any 64-bit-native source)',
 'C10-r3': 'Hc128Rng / Hc128Core get hand-written Clone with an in-place clone_from: source on a block boundary, destination mid-block - the destination keeps its own read position and stale buffer',
 'C11-r3': 'IsaacArray gets serde(skip, default) on the buffer "to halve the snapshot": every snapshot taken mid-block restores with the unconsumed words zeroed',
 'C16-r3': 'JitterRng overrides Clone::clone_from and never resets the destination\'s pending-half flag: b.next_u32(); a.next_u64(); b.clone_from(&a); b.next_u32() hands out the high half of a\'s value without reading the timer',
 'C17-r3': 'Isaac64Core Debug gets a "pretty" path for {:#?} that prints `blocks: self.b` (one letter off the counter c): state and first buffered output word, after at least one block',
 'C19-r3': 'process-wide cache of the zero-seed replacement (new module): extended wrongly when a larger seed follows a smaller one, so from_seed([0; 64]) depends on which other types were zero-seeded before',
}
def main():
    outcomes = json.load(open(os.path.join(ROOT, 'seeded', 'outcomes.json'))) if os.path.exists(os.path.join(ROOT, 'seeded', 'outcomes.json')) else {}
    for d in sorted(os.listdir(os.path.join(ROOT, 'seeded'))):
        p = os.path.join(ROOT, 'seeded', d)
        if not os.path.isdir(p):
            continue
        conf = open(os.path.join(p, 'confirm.txt')).read().strip().splitlines() if os.path.exists(os.path.join(p, 'confirm.txt')) else []
        meta = dict(
            property=d.split('-')[0],
            round=3 if d.endswith('-r3') else 2 if d.endswith('-r2') else 1,
            breaks='property %s of /verif/properties.jsonl' % d.split('-')[0],
            needs_to_manifest=NEEDS.get(d, ''),
            files=dict(patch='patch.diff', demonstration='demo_test.rs', author_notes='NOTES.md'),
            origin='independent sub-agent working in a scratch worktree of /repo with only the property text; never committed to /repo',
            confirmed_by_me=dict(
                how='tools/seed_eval.sh: existing suite with the change; demo (integration test on the public API) with and without the change, in a scratch worktree',
                existing_suite_with_change=conf[0] if conf else '',
                demo_with_change=conf[1] if len(conf) > 1 else '',
                demo_without_change=conf[2] if len(conf) > 2 else ''),
            checks_run=outcomes.get(d, {}),
        )
        json.dump(meta, open(os.path.join(p, 'meta.json'), 'w'), indent=1)
    print('meta written for', len(outcomes), 'outcomes')
if __name__ == '__main__':
    main()
