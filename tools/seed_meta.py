#!/usr/bin/env python3
"""Write /verif/seeded/<id>/meta.json from the stored notes, the confirmation log and the recorded check outcomes."""
import json, os, re, sys
ROOT = os.path.dirname(os.path.dirname(os.path.abspath(__file__)))
NEEDS = {
 'C01': 'a non-zero seed whose state words XOR to zero (e.g. from_seed([42; 32]), s0 == s1): treated like the zero seed',
 'C02': 'a seed whose last two IV words differ (W[15] gets IV[2] instead of IV[3]); all test vectors have IV[2] == IV[3] == 0',
 'C03': 'a seed with a non-zero most significant byte in some word (top byte dropped by an exclusive range + zip truncation)',
 'C04': 'a non-zero seed whose four words sum to 0 mod 2^32 (zero-seed guard by wrapping sum)',
 'C05': 'fill_bytes(n) with n % 8 == 4 (tail of exactly 4 bytes served from next_u64 in a crate-local copy of fill_bytes_via_next)',
 'C06': 'only Xoroshiro128PlusPlus (engine 49/21/28 given the jump polynomials of the 24/16/37 engine by a shared macro); commutation still holds',
 'C08': 'only seed_from_u64(0x61c8864680b583eb) of the two 64-bit-state generators (the one argument whose SplitMix64 output is 0)',
 'C09': 'a source whose first 16 bytes are all zero, through try_from_rng (no redraw) - disagrees with from_rng',
 'C10': 'two Hc128Rng on the same block, one at read position 15 and one at 16 (index clamped one slot too low in eq)',
 'C11': 'Isaac64Rng snapshot taken with index == 256 and a half word pending, continued with next_u32',
 'C12': 'two consecutive measurement readings more than 2^31 apart (full-width delta folded instead of the 32-bit one)',
 'C13': 'a probe whose two readings differ by a non-zero exact multiple of 2^32 (zero truncated delta no longer rejected)',
 'C14': 'a timer whose readings cross 2^63 between two consecutive readings (signed i64 subtraction overflows in dev builds)',
 'C15': 'any two pools whose XOR lies in the 18-dimensional kernel created by a one-digit typo in the stir constant',
 'C16': 'next_u32(); fill_bytes(len >= 8); next_u32(): the pending-half flag survives fill_bytes and a half is handed out twice',
 'C17': 'only the fresh generator in the zero-seed preset state (from_seed([0; 16])): Debug prints a state-dependent marker',
 'C18': 'a scripted timer that produces at least one stuck measurement: debug_assert_ne! reads the timer only with debug assertions on',
 'C19': 'IsaacRng::from_seed(pad(X)) and seed_from_u64(X) constructed back to back (process-wide memo keyed on the key, not the rounds)',
}
def main():
    outcomes = json.load(open(os.path.join(ROOT, 'seeded', 'outcomes.json'))) if os.path.exists(os.path.join(ROOT, 'seeded', 'outcomes.json')) else {}
    for d in sorted(os.listdir(os.path.join(ROOT, 'seeded'))):
        p = os.path.join(ROOT, 'seeded', d)
        if not os.path.isdir(p):
            continue
        conf = open(os.path.join(p, 'confirm.txt')).read().strip().splitlines() if os.path.exists(os.path.join(p, 'confirm.txt')) else []
        meta = dict(
            property=d,
            breaks='property %s of /verif/properties.jsonl' % d,
            needs_to_manifest=NEEDS.get(d, ''),
            files=dict(patch='patch.diff', demonstration='demo_test.rs', author_notes='NOTES.md'),
            origin='independent sub-agent working in a scratch worktree of /repo with only the property text; never committed to /repo',
            confirmed_by_me=dict(
                how='tools/seed_eval.sh: existing suite with the change; demo (integration test on the public API) with and without the change, in a scratch worktree',
                existing_suite_with_change=conf[0] if conf else '',
                demo_with_change=conf[1] if len(conf) > 1 else '',
                demo_without_change=conf[2] if len(conf) > 2 else ''),
            checks_run=outcomes.get(d, {}),
        )
        json.dump(meta, open(os.path.join(p, 'meta.json'), 'w'), indent=1)
    print('meta written for', len(outcomes), 'outcomes')
if __name__ == '__main__':
    main()
