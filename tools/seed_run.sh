#!/bin/bash
# usage: seed_run.sh <ID> [check ids...]  - apply /verif/seeded/<ID>/patch.diff to /repo, run the checks, undo
ID=$1; shift
CHECKS=${@:-$ID}
cd /repo && git diff --quiet || { echo "/repo is dirty"; exit 2; }
git -C /repo apply /verif/seeded/$ID/patch.diff || exit 2
for c in $CHECKS; do
  cd /verif && ./check $c > /tmp/seedrun_${ID}_$c.out 2>&1; rc=$?
  echo "seed $ID check $c exit=$rc : $(grep -c '^VIOLATION' /tmp/seedrun_${ID}_$c.out) violation line(s); $(grep -m1 'failed obligation' /tmp/seedrun_${ID}_$c.out)"
  grep -E "^UNDECIDED" /tmp/seedrun_${ID}_$c.out | head -3 | cut -c1-300
done
# undo: reverse the patch (removes files the patch created), then make sure nothing is left
git -C /repo apply -R /verif/seeded/$ID/patch.diff 2>/dev/null
git -C /repo checkout -- . ; git -C /repo clean -fdq -- rand_xoshiro rand_xorshift rand_hc rand_isaac rand_jitter; git -C /repo status --short | head -3
