#!/usr/bin/env python3
"""Generates the Verus-verified checker that discharges the closed arithmetic fact of C06:
      forall s.  poly(T, J_ref, s, n) == T^(2^k)(s)          (J_ref(x) == x^(2^k) mod minpoly(T))
for the five reference engines and both exponents.  The checker is an executable Verus program (`verus --compile`):
it builds the columns T(e_j), squares the column matrix k times (each squaring is proved to double the exponent),
builds the columns J_ref(T)(e_j) and compares.  Its verified postcondition says: if it returns true, the two
linear maps agree on every state.  Nothing is taken from /repo; the polynomial comes from tools/jumppoly.py."""
import importlib.util, os, sys
HERE = os.path.dirname(os.path.abspath(__file__))
ROOT = os.path.dirname(HERE)

def load(name, path):
    sp = importlib.util.spec_from_file_location(name, path); m = importlib.util.module_from_spec(sp); sp.loader.exec_module(m); return m

SPEC_LEMMAS = r'''
pub mod jc@W@ {
use vstd::prelude::*;
use crate::spec::*;
use crate::linear::*;

pub open spec fn unit@W@(nw: nat, j: nat) -> Seq<@T@> { Seq::new(nw, |i: int| if i == j / @W@ { 1@T@ << ((j % @W@) as @T@) } else { 0@T@ }) }
pub open spec fn sbit@W@(s: Seq<@T@>, j: nat) -> bool { (s[(j / @W@) as int] >> ((j % @W@) as @T@)) & 1 == 1 }
pub open spec fn low@W@(s: Seq<@T@>, m: nat) -> Seq<@T@> {
    Seq::new(s.len(), |i: int| if @W@ * (i + 1) <= m { s[i] } else if @W@ * i >= m { 0@T@ } else { s[i] & (((1@T@ << ((m - @W@ * i) as @T@)) - 1) as @T@) })
}
pub open spec fn apply@W@(cols: Seq<Seq<@T@>>, s: Seq<@T@>, m: nat) -> Seq<@T@> decreases m {
    if m == 0 { zeros@W@(s.len()) } else {
        let acc = apply@W@(cols, s, (m - 1) as nat);
        if sbit@W@(s, (m - 1) as nat) { xorv@W@(acc, cols[m - 1]) } else { acc }
    }
}
pub proof fn lemma_low_step(s: Seq<@T@>, m: nat)
    requires m < @W@ * s.len()
    ensures low@W@(s, m + 1) =~= (if sbit@W@(s, m) { xorv@W@(low@W@(s, m), unit@W@(s.len(), m)) } else { low@W@(s, m) }),
            low@W@(s, m).len() == s.len(), unit@W@(s.len(), m).len() == s.len()
{
    let i = (m / @W@) as int; let r = (m % @W@) as @T@; let x = s[i];
    assert(r < @W@ ==> (if r == @WM1@ { x } else { x & (((1@T@ << ((r + 1) as @T@)) - 1) as @T@) }) ==
        (if r == 0 { 0@T@ } else { x & (((1@T@ << r) - 1) as @T@) }) ^ (if (x >> r) & 1 == 1 { 1@T@ << r } else { 0@T@ })) by (bit_vector);
    assert(forall |y: @T@| y ^ 0@T@ == y) by { assert forall |y: @T@| y ^ 0@T@ == y by { assert(y ^ 0@T@ == y) by (bit_vector); } }
    assert(forall |y: @T@| 0@T@ ^ y == y) by { assert forall |y: @T@| 0@T@ ^ y == y by { assert(0@T@ ^ y == y) by (bit_vector); } }
    let a = low@W@(s, m + 1);
    let b = if sbit@W@(s, m) { xorv@W@(low@W@(s, m), unit@W@(s.len(), m)) } else { low@W@(s, m) };
    assert forall |q: int| 0 <= q < s.len() implies a[q] == b[q] by { if q == i { } else { } }
}
// a linear map is determined by its values on the basis
pub proof fn lemma_apply_is_map(l: spec_fn(Seq<@T@>) -> Seq<@T@>, nw: nat, cols: Seq<Seq<@T@>>, s: Seq<@T@>, m: nat)
    requires linear@W@(l, nw), cols.len() == @W@ * nw, s.len() == nw, m <= @W@ * nw,
             forall |j: nat| j < @W@ * nw ==> cols[j as int] =~= #[trigger] l(unit@W@(nw, j))
    ensures apply@W@(cols, s, m) =~= l(low@W@(s, m))
    decreases m
{
    if m == 0 {
        assert(low@W@(s, 0) =~= zeros@W@(nw));
    } else {
        let k = (m - 1) as nat;
        lemma_apply_is_map(l, nw, cols, s, k);
        lemma_low_step(s, k);
        if sbit@W@(s, k) {
            assert(cols[k as int] =~= l(unit@W@(nw, k)));
            assert(l(xorv@W@(low@W@(s, k), unit@W@(nw, k))) =~= xorv@W@(l(low@W@(s, k)), l(unit@W@(nw, k))));
        }
    }
}
pub proof fn lemma_low_full(s: Seq<@T@>) ensures low@W@(s, @W@ * s.len()) =~= s { }
pub proof fn lemma_iter_add(t: spec_fn(Seq<@T@>) -> Seq<@T@>, s: Seq<@T@>, a: nat, b: nat)
    ensures iter@W@(t, iter@W@(t, s, a), b) == iter@W@(t, s, a + b) decreases b
{ if b > 0 { lemma_iter_add(t, s, a, (b - 1) as nat); } }
pub proof fn lemma_iter_linear(t: spec_fn(Seq<@T@>) -> Seq<@T@>, w: nat, n: nat)
    requires linear@W@(t, w)
    ensures linear@W@(|s: Seq<@T@>| iter@W@(t, s, n), w)
    decreases n
{
    let l = |s: Seq<@T@>| iter@W@(t, s, n);
    if n > 0 {
        lemma_iter_linear(t, w, (n - 1) as nat);
        let p = |s: Seq<@T@>| iter@W@(t, s, (n - 1) as nat);
        assert forall |a: Seq<@T@>| a.len() == w implies (#[trigger] l(a)).len() == w by { assert(p(a).len() == w); }
        assert forall |a: Seq<@T@>, b: Seq<@T@>| a.len() == w && b.len() == w implies #[trigger] l(xorv@W@(a, b)) =~= xorv@W@(l(a), l(b)) by {
            assert(p(xorv@W@(a, b)) =~= xorv@W@(p(a), p(b)));
            assert(p(a).len() == w && p(b).len() == w);
            assert(t(xorv@W@(p(a), p(b))) =~= xorv@W@(t(p(a)), t(p(b))));
        }
        assert(p(zeros@W@(w)) =~= zeros@W@(w));
        assert(l(zeros@W@(w)) =~= zeros@W@(w));
    } else {
        assert forall |a: Seq<@T@>, b: Seq<@T@>| a.len() == w && b.len() == w implies #[trigger] l(xorv@W@(a, b)) =~= xorv@W@(l(a), l(b)) by { }
    }
}
pub proof fn lemma_xor_assoc4(a: Seq<@T@>, b: Seq<@T@>, c: Seq<@T@>, d: Seq<@T@>)
    requires a.len() == b.len(), b.len() == c.len(), c.len() == d.len()
    ensures xorv@W@(xorv@W@(a, b), xorv@W@(c, d)) =~= xorv@W@(xorv@W@(a, c), xorv@W@(b, d))
{
    assert forall |i: int| 0 <= i < a.len() implies (a[i] ^ b[i]) ^ (c[i] ^ d[i]) == (a[i] ^ c[i]) ^ (b[i] ^ d[i]) by {
        let (w, x, y, z) = (a[i], b[i], c[i], d[i]);
        assert((w ^ x) ^ (y ^ z) == (w ^ y) ^ (x ^ z)) by (bit_vector);
    }
}
pub proof fn lemma_poly_linear(t: spec_fn(Seq<@T@>) -> Seq<@T@>, w: nat, j: Seq<@T@>, n: nat)
    requires linear@W@(t, w)
    ensures linear@W@(|s: Seq<@T@>| poly@W@(t, j, s, n), w)
    decreases n
{
    let l = |s: Seq<@T@>| poly@W@(t, j, s, n);
    if n > 0 {
        let m = (n - 1) as nat;
        lemma_poly_linear(t, w, j, m);
        lemma_iter_linear(t, w, m);
        let p = |s: Seq<@T@>| poly@W@(t, j, s, m);
        let it = |s: Seq<@T@>| iter@W@(t, s, m);
        assert forall |a: Seq<@T@>| a.len() == w implies (#[trigger] l(a)).len() == w by { assert(p(a).len() == w); assert(it(a).len() == w); }
        assert forall |a: Seq<@T@>, b: Seq<@T@>| a.len() == w && b.len() == w implies #[trigger] l(xorv@W@(a, b)) =~= xorv@W@(l(a), l(b)) by {
            assert(p(xorv@W@(a, b)) =~= xorv@W@(p(a), p(b)));
            assert(it(xorv@W@(a, b)) =~= xorv@W@(it(a), it(b)));
            assert(p(a).len() == w && p(b).len() == w && it(a).len() == w && it(b).len() == w);
            if bit@W@(j, m) { lemma_xor_assoc4(p(a), p(b), it(a), it(b)); }
        }
        assert(p(zeros@W@(w)) =~= zeros@W@(w)); assert(it(zeros@W@(w)) =~= zeros@W@(w));
        assert(xorv@W@(zeros@W@(w), zeros@W@(w)) =~= zeros@W@(w)) by { assert(0@T@ ^ 0@T@ == 0@T@) by (bit_vector); }
        assert(l(zeros@W@(w)) =~= zeros@W@(w));
    } else {
        assert(xorv@W@(zeros@W@(w), zeros@W@(w)) =~= zeros@W@(w)) by { assert(0@T@ ^ 0@T@ == 0@T@) by (bit_vector); }
        assert forall |a: Seq<@T@>, b: Seq<@T@>| a.len() == w && b.len() == w implies #[trigger] l(xorv@W@(a, b)) =~= xorv@W@(l(a), l(b)) by { }
    }
}
// two linear maps that agree on the basis agree everywhere
pub proof fn lemma_agree_on_basis(l1: spec_fn(Seq<@T@>) -> Seq<@T@>, l2: spec_fn(Seq<@T@>) -> Seq<@T@>, nw: nat, s: Seq<@T@>)
    requires linear@W@(l1, nw), linear@W@(l2, nw), s.len() == nw, forall |j: nat| j < @W@ * nw ==> #[trigger] l1(unit@W@(nw, j)) =~= l2(unit@W@(nw, j))
    ensures l1(s) =~= l2(s)
{
    let cols = Seq::new(@W@ * nw, |j: int| l1(unit@W@(nw, j as nat)));
    lemma_apply_is_map(l1, nw, cols, s, @W@ * nw);
    assert forall |j: nat| j < @W@ * nw implies cols[j as int] =~= #[trigger] l2(unit@W@(nw, j)) by { assert(l1(unit@W@(nw, j)) =~= l2(unit@W@(nw, j))); }
    lemma_apply_is_map(l2, nw, cols, s, @W@ * nw);
    lemma_low_full(s);
}
}
'''

EXEC = r'''
pub mod chk_@ENG@ {
use vstd::prelude::*;
use crate::shims::*;
use crate::spec::*;
use crate::linear::*;
use crate::jc@W@::*;
use crate::p2;

pub open spec fn cv(cols: Seq<Vec<@T@>>) -> Seq<Seq<@T@>> { Seq::new(cols.len(), |j: int| cols[j]@) }
pub open spec fn wf(cols: Seq<Vec<@T@>>) -> bool { cols.len() == @N@ && forall |j: int| 0 <= j < @N@ ==> (#[trigger] cols[j])@.len() == @NW@ }

// one step of the reference engine, executable
pub fn step(s: &Vec<@T@>) -> (r: Vec<@T@>)
    requires s@.len() == @NW@
    ensures r@ =~= @ENG@_next(s@)
{
@STEP@
}
fn unit_vec(j: usize) -> (r: Vec<@T@>)
    requires j < @N@
    ensures r@ =~= unit@W@(@NW@, j as nat)
{
    let mut r: Vec<@T@> = Vec::new();
    let mut i: usize = 0;
    while i < @NW@
        invariant i <= @NW@, j < @N@, r@.len() == i, forall |q: int| 0 <= q < i ==> r@[q] == unit@W@(@NW@, j as nat)[q]
        decreases @NW@ - i
    {
        if i == j / @W@ { r.push((1 as @T@) << ((j % @W@) as @T@)); } else { r.push(0); }
        i += 1;
    }
    r
}
fn zero_vec() -> (r: Vec<@T@>) ensures r@ =~= zeros@W@(@NW@)
{
    let mut r: Vec<@T@> = Vec::new();
    let mut i: usize = 0;
    while i < @NW@ invariant i <= @NW@, r@.len() == i, forall |q: int| 0 <= q < i ==> r@[q] == 0 decreases @NW@ - i { r.push(0); i += 1; }
    r
}
fn xor_vec(a: &Vec<@T@>, c: &Vec<@T@>) -> (r: Vec<@T@>)
    requires a@.len() == @NW@, c@.len() == @NW@
    ensures r@ =~= xorv@W@(a@, c@)
{
    let mut r: Vec<@T@> = Vec::new();
    let mut i: usize = 0;
    while i < @NW@
        invariant i <= @NW@, a@.len() == @NW@, c@.len() == @NW@, r@.len() == i, forall |q: int| 0 <= q < i ==> r@[q] == a@[q] ^ c@[q]
        decreases @NW@ - i
    { r.push(a[i] ^ c[i]); i += 1; }
    r
}
fn bit_of(s: &Vec<@T@>, m: usize) -> (b: bool)
    requires s@.len() == @NW@, m < @N@
    ensures b == sbit@W@(s@, m as nat)
{ (s[m / @W@] >> ((m % @W@) as @T@)) & 1 == 1 }
fn jbit_of(s: &Vec<@T@>, m: usize) -> (b: bool)
    requires s@.len() == @NW@, m < @N@
    ensures b == bit@W@(s@, m as nat)
{ (s[m / @W@] & ((1 as @T@) << ((m % @W@) as @T@))) != 0 }

// XOR of the columns selected by the bits of s
fn apply_cols(cols: &Vec<Vec<@T@>>, s: &Vec<@T@>) -> (r: Vec<@T@>)
    requires wf(cols@), s@.len() == @NW@
    ensures r@ =~= apply@W@(cv(cols@), s@, @N@), r@.len() == @NW@
{
    let mut acc = zero_vec();
    let mut m: usize = 0;
    while m < @N@
        invariant m <= @N@, wf(cols@), s@.len() == @NW@, acc@.len() == @NW@, acc@ =~= apply@W@(cv(cols@), s@, m as nat)
        decreases @N@ - m
    {
        if bit_of(s, m) {
            acc = xor_vec(&acc, &cols[m]);
            proof { assert(cv(cols@)[m as int] == cols@[m as int]@); }
        }
        m += 1;
    }
    acc
}
pub open spec fn tfn() -> spec_fn(Seq<@T@>) -> Seq<@T@> { |s: Seq<@T@>| @ENG@_next(s) }
// columns of a map l: cols[j] == l(e_j)
pub open spec fn is_cols(cols: Seq<Vec<@T@>>, l: spec_fn(Seq<@T@>) -> Seq<@T@>) -> bool {
    wf(cols) && forall |j: nat| j < @N@ ==> (#[trigger] cols[j as int])@ =~= l(unit@W@(@NW@, j))
}
pub open spec fn pow_map(e: nat) -> spec_fn(Seq<@T@>) -> Seq<@T@> { |s: Seq<@T@>| iter@W@(tfn(), s, e) }

fn t_cols() -> (cols: Vec<Vec<@T@>>)
    ensures is_cols(cols@, pow_map(1))
{
    let mut cols: Vec<Vec<@T@>> = Vec::new();
    let mut j: usize = 0;
    while j < @N@
        invariant j <= @N@, cols@.len() == j, forall |q: nat| q < j ==> (#[trigger] cols@[q as int])@ =~= pow_map(1)(unit@W@(@NW@, q)) && cols@[q as int]@.len() == @NW@
        decreases @N@ - j
    {
        let e = unit_vec(j);
        let c = step(&e);
        proof { reveal_with_fuel(iter@W@, 2); assert(c@ =~= pow_map(1)(unit@W@(@NW@, j as nat))); }
        cols.push(c);
        j += 1;
    }
    cols
}
// squaring doubles the exponent
fn square(cols: &Vec<Vec<@T@>>, Ghost(e): Ghost<nat>) -> (r: Vec<Vec<@T@>>)
    requires is_cols(cols@, pow_map(e))
    ensures is_cols(r@, pow_map(2 * e))
{
    proof { lemma_@ENG@_linear(); lemma_iter_linear(tfn(), @NW@, e); }
    let mut r: Vec<Vec<@T@>> = Vec::new();
    let mut j: usize = 0;
    while j < @N@
        invariant j <= @N@, is_cols(cols@, pow_map(e)), linear@W@(pow_map(e), @NW@), r@.len() == j,
                  forall |q: nat| q < j ==> (#[trigger] r@[q as int])@ =~= pow_map(2 * e)(unit@W@(@NW@, q)) && r@[q as int]@.len() == @NW@
        decreases @N@ - j
    {
        let c = apply_cols(cols, &cols[j]);
        proof {
            let s = cols@[j as int]@;
            assert(s =~= pow_map(e)(unit@W@(@NW@, j as nat)));
            assert forall |q: nat| q < @W@ * @NW@ implies cv(cols@)[q as int] =~= #[trigger] pow_map(e)(unit@W@(@NW@, q)) by { assert(cols@[q as int]@ =~= pow_map(e)(unit@W@(@NW@, q))); }
            lemma_apply_is_map(pow_map(e), @NW@, cv(cols@), s, @N@);
            lemma_low_full(s);
            lemma_iter_add(tfn(), unit@W@(@NW@, j as nat), e, e);
            assert(c@ =~= pow_map(2 * e)(unit@W@(@NW@, j as nat)));
        }
        r.push(c);
        j += 1;
    }
    r
}
// columns of J(T): poly(T, J, e_j, n) by the same accumulate-and-step loop as the generators' jump()
fn jump_cols(jw: &Vec<@T@>) -> (r: Vec<Vec<@T@>>)
    requires jw@.len() == @NW@
    ensures is_cols(r@, |s: Seq<@T@>| poly@W@(tfn(), jw@, s, @N@))
{
    let mut r: Vec<Vec<@T@>> = Vec::new();
    let mut j: usize = 0;
    while j < @N@
        invariant j <= @N@, jw@.len() == @NW@, r@.len() == j,
                  forall |q: nat| q < j ==> (#[trigger] r@[q as int])@ =~= poly@W@(tfn(), jw@, unit@W@(@NW@, q), @N@) && r@[q as int]@.len() == @NW@
        decreases @N@ - j
    {
        let ghost e0 = unit@W@(@NW@, j as nat);
        let mut s = unit_vec(j);
        let mut acc = zero_vec();
        let mut b: usize = 0;
        while b < @N@
            invariant b <= @N@, jw@.len() == @NW@, s@.len() == @NW@, acc@.len() == @NW@, e0.len() == @NW@,
                      s@ =~= iter@W@(tfn(), e0, b as nat), acc@ =~= poly@W@(tfn(), jw@, e0, b as nat)
            decreases @N@ - b
        {
            proof { lemma_poly@W@_step(tfn(), jw@, e0, b as nat); lemma_iter@W@_step(tfn(), e0, b as nat); }
            if jbit_of(jw, b) { acc = xor_vec(&acc, &s); }
            s = step(&s);
            b += 1;
        }
        r.push(acc);
        j += 1;
    }
    r
}
fn eq_cols(a: &Vec<Vec<@T@>>, b: &Vec<Vec<@T@>>) -> (ok: bool)
    requires wf(a@), wf(b@)
    ensures ok ==> forall |j: int| 0 <= j < @N@ ==> (#[trigger] a@[j])@ =~= b@[j]@
{
    let mut j: usize = 0;
    while j < @N@
        invariant j <= @N@, wf(a@), wf(b@), forall |q: int| 0 <= q < j ==> (#[trigger] a@[q])@ =~= b@[q]@
        decreases @N@ - j
    {
        let mut i: usize = 0;
        while i < @NW@
            invariant i <= @NW@, j < @N@, wf(a@), wf(b@), forall |q: int| 0 <= q < i ==> a@[j as int]@[q] == b@[j as int]@[q]
            decreases @NW@ - i
        {
            if a[j][i] != b[j][i] { return false; }
            i += 1;
        }
        j += 1;
    }
    true
}
// THE CHECK: if this returns true then the polynomial jw, evaluated at T, is T^(2^k) - on every state
pub fn check(jw: &Vec<@T@>, k: usize) -> (ok: bool)
    requires jw@.len() == @NW@
    ensures ok ==> forall |s: Seq<@T@>| s.len() == @NW@ ==> #[trigger] poly@W@(tfn(), jw@, s, @N@) =~= iter@W@(tfn(), s, p2(k as nat))
{
    let mut cols = t_cols();
    let mut i: usize = 0;
    while i < k
        invariant i <= k, is_cols(cols@, pow_map(p2(i as nat)))
        decreases k - i
    {
        cols = square(&cols, Ghost(p2(i as nat)));
        proof { assert(p2((i + 1) as nat) == 2 * p2(i as nat)); }
        i += 1;
    }
    let jc = jump_cols(jw);
    let ok = eq_cols(&jc, &cols);
    proof {
        if ok {
            lemma_@ENG@_linear();
            lemma_iter_linear(tfn(), @NW@, p2(k as nat));
            lemma_poly_linear(tfn(), @NW@, jw@, @N@);
            let l1 = |s: Seq<@T@>| poly@W@(tfn(), jw@, s, @N@);
            let l2 = pow_map(p2(k as nat));
            assert forall |j: nat| j < @W@ * @NW@ implies #[trigger] l1(unit@W@(@NW@, j)) =~= l2(unit@W@(@NW@, j)) by {
                assert(jc@[j as int]@ =~= l1(unit@W@(@NW@, j)));
                assert(cols@[j as int]@ =~= l2(unit@W@(@NW@, j)));
                assert(jc@[j as int]@ =~= cols@[j as int]@);
            }
            assert forall |s: Seq<@T@>| s.len() == @NW@ implies #[trigger] poly@W@(tfn(), jw@, s, @N@) =~= iter@W@(tfn(), s, p2(k as nat)) by {
                lemma_agree_on_basis(l1, l2, @NW@, s);
            }
        }
    }
    ok
}
}
'''

STEPS = {
 'xoro128a': ('u64', 2, '    let s1 = s[1] ^ s[0];\n    let mut r: Vec<u64> = Vec::new();\n    r.push(s[0].rotate_left(24) ^ s1 ^ (s1 << 16));\n    r.push(s1.rotate_left(37));\n    r'),
 'xoro128b': ('u64', 2, '    let s1 = s[1] ^ s[0];\n    let mut r: Vec<u64> = Vec::new();\n    r.push(s[0].rotate_left(49) ^ s1 ^ (s1 << 21));\n    r.push(s1.rotate_left(28));\n    r'),
 'xosh128': ('u32', 4, '    let t = s[1] << 9;\n    let s2 = s[2] ^ s[0];\n    let s3 = s[3] ^ s[1];\n    let s1 = s[1] ^ s2;\n    let s0 = s[0] ^ s3;\n    let mut r: Vec<u32> = Vec::new();\n    r.push(s0); r.push(s1); r.push(s2 ^ t); r.push(s3.rotate_left(11));\n    r'),
 'xosh256': ('u64', 4, '    let t = s[1] << 17;\n    let s2 = s[2] ^ s[0];\n    let s3 = s[3] ^ s[1];\n    let s1 = s[1] ^ s2;\n    let s0 = s[0] ^ s3;\n    let mut r: Vec<u64> = Vec::new();\n    r.push(s0); r.push(s1); r.push(s2 ^ t); r.push(s3.rotate_left(45));\n    r'),
 'xosh512': ('u64', 8, '    let t = s[1] << 11;\n    let s2 = s[2] ^ s[0];\n    let s5 = s[5] ^ s[1];\n    let s1 = s[1] ^ s2;\n    let s7 = s[7] ^ s[3];\n    let s3 = s[3] ^ s[4];\n    let s4 = s[4] ^ s5;\n    let s0 = s[0] ^ s[6];\n    let s6 = s[6] ^ s7;\n    let mut r: Vec<u64> = Vec::new();\n    r.push(s0); r.push(s1); r.push(s2); r.push(s3); r.push(s4); r.push(s5); r.push(s6 ^ t); r.push(s7.rotate_left(21));\n    r'),
}

def sub(t, d):
    for k, v in d.items():
        t = t.replace('@' + k + '@', str(v))
    return t

def gen():
    jp = load('jumppoly', os.path.join(HERE, 'jumppoly.py'))
    gl = load('gen_linear_lemmas', os.path.join(HERE, 'gen_linear_lemmas.py'))
    data = jp.compute()
    shim = open(os.path.join(ROOT, 'contracts', 'shims', 'std.rs')).read()
    spec = open(os.path.join(ROOT, 'contracts', 'xoshiro', 'spec.rs')).read().replace('//@JREF@', jp.rust(data))
    out = ['#![allow(unused_imports, unused_variables, unused_mut, dead_code, non_snake_case, unused_parens)]', 'use vstd::prelude::*;', 'verus! {', shim, spec, gl.gen(),
           'pub open spec fn p2(k: nat) -> nat decreases k { if k == 0 { 1 } else { 2 * p2((k - 1) as nat) } }']
    for W, T in (('64', 'u64'), ('32', 'u32')):
        out.append(sub(SPEC_LEMMAS, dict(W=W, T=T, WM1=int(W) - 1)))
    mains = []
    for eng, (T, nw, body) in STEPS.items():
        W = T[1:]
        out.append(sub(EXEC, dict(ENG=eng, W=W, T=T, NW=nw, N=nw * int(W), STEP=body)))
        for label in ('jump', 'long_jump'):
            words = data[eng][label]['words']
            k = data[eng][label]['log2_steps']
            mains.append((eng, label, T, words, k))
    m = ['fn main() {', '    let mut all_ok = true;']
    for eng, label, T, words, k in mains:
        m.append('    {')
        m.append('        let mut jw: Vec<%s> = Vec::new();' % T)
        for w in words:
            m.append('        jw.push(0x%x);' % w)
        m.append('        let ok = chk_%s::check(&jw, %d);' % (eng, k))
        m.append('        report("%s", "%s", %d, ok);' % (eng, label, k))
        m.append('        if !ok { all_ok = false; }')
        m.append('    }')
    m.append('    finish(all_ok);')
    m.append('}')
    out.append('#[verifier::external_body]\nfn report(eng: &str, label: &str, k: usize, ok: bool) { println!("JUMPCHECK {} {} x^(2^{}) {}", eng, label, k, if ok { "OK" } else { "MISMATCH" }); }')
    out.append('#[verifier::external_body]\nfn finish(ok: bool) { if !ok { std::process::exit(1); } }')
    out.append('\n'.join(m))
    out.append('} // verus!')
    return '\n'.join(out)

if __name__ == '__main__':
    print(gen())
