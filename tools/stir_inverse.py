#!/usr/bin/env python3
"""The GF(2)-linear part L(d) = stir(d) ^ stir(0) of Jitterentropy's stir step has rank 64; this script inverts it
by Gaussian elimination and emits the 64 columns ninv(j) with L(ninv(j)) == e_j (asserted) as a Verus spec function.
The verifier does not trust these numbers: it re-evaluates nmap(L(e_k)) == e_k for all 64 unit vectors (DESIGN C15)."""
M64 = (1 << 64) - 1

def rotl(x, k):
    k %= 64
    return ((x << k) | (x >> (64 - k))) & M64 if k else x

def stir(d):
    C = 0x67452301efcdab89
    m = 0x98badcfe10325476
    for i in range(64):
        apply = (d >> i) & 1
        mask = (~(apply - 1)) & M64
        m ^= C & mask
        m = rotl(m, 1)
    return d ^ m

def compute():
    c = stir(0)
    L = [stir(1 << i) ^ c for i in range(64)]
    piv = {}
    for v, t in [(L[i], 1 << i) for i in range(64)]:
        while v:
            h = v.bit_length() - 1
            if h in piv:
                pv, pt = piv[h]
                v ^= pv
                t ^= pt
            else:
                piv[h] = (v, t)
                break
    assert len(piv) == 64, 'stir is not bijective'
    inv = [0] * 64
    for h in sorted(piv):
        v, t = piv[h]
        for l in range(h):
            if (v >> l) & 1:
                v ^= 1 << l
                t ^= inv[l]
        assert v == 1 << h
        inv[h] = t
    for j in range(64):
        assert stir(inv[j]) ^ c == 1 << j
    return inv

def rust(inv):
    s = 'pub open spec fn ninv(j: nat) -> u64 {\n'
    for j, x in enumerate(inv):
        s += '    %sif j == %d { 0x%016xu64 }\n' % ('' if j == 0 else 'else ', j, x)
    s += '    else { 0u64 }\n}\n'
    s += 'pub proof fn lemma_comp_basis_all()\n    ensures forall |k: u64| k < 64 ==> comp(1u64 << k) == 1u64 << k\n{\n'
    for k in range(64):
        s += '    assert(comp(0x%xu64) == 0x%xu64) by (compute_only);\n' % (1 << k, 1 << k)
    s += '    assert forall |k: u64| k < 64 implies comp(1u64 << k) == 1u64 << k by {\n'
    s += '        assert(k < 64 ==> (' + ' || '.join('(k == %d && (1u64 << k) == 0x%xu64)' % (k, 1 << k) for k in range(64)) + ')) by (bit_vector);\n    }\n}\n'
    return s

if __name__ == '__main__':
    print(rust(compute()))
