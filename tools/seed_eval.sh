#!/bin/bash
# usage: seed_eval.sh <ID> <crate-for-demo> <worktree>     - confirm a seeded change and store it under /verif/seeded/<ID>/
set -u
ID=$1; CRATE=$2; WT=$3; FEAT=${4:-}
OUT=${SEED_OUT:-$ID}   # directory name under /verif/seeded (round 2: SEED_OUT=<ID>-r2)
export CARGO_TARGET_DIR=$WT/target CARGO_NET_OFFLINE=true
cd $WT || exit 2
echo "== $ID: existing suite WITH the change"
git diff --quiet && { echo "no change applied in $WT"; exit 2; }
T1=$(cargo test --workspace --offline 2>&1 | grep -E "^test result" | awk '{p+=$4; f+=$6} END {print p" passed "f" failed"}')
echo "   $T1"
mkdir -p $CRATE/tests; cp demo/demo_test.rs $CRATE/tests/zz_demo_test.rs
echo "== demo WITH the change (must fail)"
cargo test --offline -p $CRATE $FEAT --test zz_demo_test 2>&1 | grep -E "^test result|error\[" | head -3 > /tmp/seed_with_$ID.txt; cat /tmp/seed_with_$ID.txt
git diff -- . ':!*/tests/zz_demo_test.rs' > /tmp/seed_patch_$ID.diff
git apply -R /tmp/seed_patch_$ID.diff
echo "== demo WITHOUT the change (must pass)"
cargo test --offline -p $CRATE $FEAT --test zz_demo_test 2>&1 | grep -E "^test result|error\[" | head -3 > /tmp/seed_without_$ID.txt; cat /tmp/seed_without_$ID.txt
git apply /tmp/seed_patch_$ID.diff
rm -f $CRATE/tests/zz_demo_test.rs; rmdir $CRATE/tests 2>/dev/null
mkdir -p /verif/seeded/$OUT
cp /tmp/seed_patch_$ID.diff /verif/seeded/$OUT/patch.diff
cp demo/demo_test.rs /verif/seeded/$OUT/demo_test.rs
cp demo/NOTES.md /verif/seeded/$OUT/NOTES.md 2>/dev/null
echo "$T1" > /verif/seeded/$OUT/confirm.txt
echo "with: $(cat /tmp/seed_with_$ID.txt)" >> /verif/seeded/$OUT/confirm.txt
echo "without: $(cat /tmp/seed_without_$ID.txt)" >> /verif/seeded/$OUT/confirm.txt
