#!/bin/bash
# run every stored seeded change against the check of its property (and record the outcome)
cd /verif
for id in ${@:-C02 C03 C05 C08 C09 C10 C11 C12 C13 C14 C15 C16 C17 C18 C19 C06}; do
  tools/seed_run.sh $id > /verif/.work/t/seedrun_$id.txt 2>&1
  cat /verif/.work/t/seedrun_$id.txt | head -5
done
