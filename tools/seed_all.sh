#!/bin/bash
# run every stored seeded change (both rounds) against the quick check of its property and record the outcome
# usage: seed_all.sh [dir names under seeded/ ...]   (default: all)
cd /verif
OUT=/verif/.work/t/seed_regress.out; : > $OUT
for d in ${@:-$(ls seeded | grep -E '^C[0-9]+(-r2)?$')}; do
  id=${d%%-*}
  tools/seed_run.sh $d $id > /verif/.work/t/seedrun_$d.txt 2>&1
  head -4 /verif/.work/t/seedrun_$d.txt | cut -c1-300 | tee -a $OUT
done
