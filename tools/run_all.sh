#!/bin/bash
# run every claimed check once (tier from $1, default quick) and summarise
cd /verif
T=${1:-quick}
for id in C01 C02 C03 C04 C05 C06 C08 C09 C10 C11 C12 C13 C14 C15 C16 C17 C18 C19; do
  s=$(date +%s); ./check $id --tier $T > .work/t/all_$id.out 2>&1; rc=$?; e=$(date +%s)
  echo "$id exit=$rc $((e-s))s $(grep -m1 "^$id \[" .work/t/all_$id.out)"
done
