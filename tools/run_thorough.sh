#!/bin/bash
# thorough tier for every claimed check, longest / most recently changed first
cd /verif
for id in ${@:-C10 C05 C03 C09 C08 C11 C01 C17 C02 C04 C12 C13 C16 C06 C14 C15 C18 C19}; do
  s=$(date +%s); ./check $id --tier thorough > .work/t/th_$id.out 2>&1; rc=$?; e=$(date +%s)
  echo "$id exit=$rc $((e-s))s $(grep -m1 "^$id \[" .work/t/th_$id.out)"
done
