#!/bin/bash
# usage: seed2.sh <ID> <crate> [features]  - round 2: confirm /tmp/w2-<ID>, store as seeded/<ID>-r2, run check <ID> against it
ID=$1; CRATE=$2; FEAT=${3:-}
if [ -d /tmp/w2-$ID ]; then
  SEED_OUT=$ID-r2 /verif/tools/seed_eval.sh $ID $CRATE /tmp/w2-$ID "$FEAT" > /verif/.work/t/seedeval2_$ID.txt 2>&1
fi
cat /verif/seeded/$ID-r2/confirm.txt
/verif/tools/seed_run.sh $ID-r2 $ID 2>&1 | tee /verif/.work/t/seedrun2_$ID.txt
