"""Static parts: obligations decided on rustc's expansion of /repo without an SMT query (C18 configuration invariance,
C19 frame scan, Send/Sync obligations discharged by rustc)."""
import difflib
import os
import re
import subprocess
import time

from .parts import PartResult, Ob, DISCHARGED, FAILED, UNDECIDED, ROOT
from .rs import Crate, AnchorLost, mask
from .unit import expand, Undecided

WORK = os.path.join(ROOT, '.work')
CRATES = {
    'rand_xoshiro': ['serde'],
    'rand_xorshift': ['serde'],
    'rand_isaac': ['serde'],
    'rand_hc': [],
    'rand_jitter': [],
}


def fn_texts(crate_text):
    cr = Crate(crate_text)
    out = {}
    for p in cr.order:
        it = cr.index[p]
        if it.kind == 'fn' and it.body_open is not None:
            t = cr.src(it)
            t = re.sub(r'\s+', ' ', t)
            out[p] = t
    return out


def is_generated_by_feature(path):
    """items that only exist because an optional feature adds an impl (serde derive output)"""
    return bool(re.search(r'(Serialize|Deserialize|_serde|__Visitor|__Field|isaac_array_serde|Visitor@|Expected@)', path)) or '_::' in path or path.startswith('_')


def cfg_invariance():
    """C18 item 2: every function of the crates has the same expanded text under {debug assertions on, off} x
    {serde off, on}: no cfg!(debug_assertions) / #[cfg(feature)] branch can make a generator behave differently."""
    pr = PartResult('static:cfg_invariance')
    t0 = time.time()
    for crate, feats in CRATES.items():
        configs = []
        for da in (True, False):
            for fs in ([], feats) if feats else ([],):
                configs.append((da, tuple(fs)))
        texts = {}
        try:
            for da, fs in configs:
                txt, _ = expand(crate, features=fs, debug_assertions=da)
                texts[(da, fs)] = fn_texts(txt)
        except (Undecided, AnchorLost) as e:
            pr.undecided.append('%s: %s' % (crate, e))
            continue
        base_key = configs[0]
        base = texts[base_key]
        n = 0
        for path, t in base.items():
            if is_generated_by_feature(path) or '::tests::' in path or '::test::' in path:
                continue
            n += 1
            bad = []
            for k in configs[1:]:
                t2 = texts[k].get(path)
                if t2 is None:
                    bad.append(('missing under debug_assertions=%s features=%s' % k, ''))
                elif t2 != t:
                    d = '\n'.join(difflib.unified_diff(t.split('; '), t2.split('; '), lineterm='', n=1))
                    bad.append(('differs under debug_assertions=%s features=%s' % k, d[:1500]))
            st = FAILED if bad else DISCHARGED
            pr.obs.append(Ob('cfginv:%s::%s' % (crate, path), ['C18'], st, 'rustc-expansion-diff', fn='%s::%s' % (crate, path), kind='cfg-invariance',
                             text='expanded text identical under %d configurations' % len(configs),
                             detail=[dict(message=m, rendered=d) for m, d in bad]))
        pr.info[crate] = dict(configurations=['debug_assertions=%s features=%s' % k for k in configs], functions=n)
    pr.cmd = 'cargo +nightly rustc -p <crate> [--features serde] -- -Zunpretty=expanded -C debug-assertions={yes,no}; per-function text comparison'
    pr.wall_s = time.time() - t0
    return pr


SHARED = re.compile(r'\b(static\s+mut|thread_local!|UnsafeCell|RefCell|\bCell<|Atomic[A-Z][A-Za-z0-9]*|Mutex|RwLock|OnceLock|OnceCell|LazyLock|lazy_static)\b')


def shared_state_scan():
    """C19 item 2: the expanded crates (default features, which is what every generator operation is built from) contain no
    `static` with interior mutability, `static mut`, thread_local!, or interior-mutability types reachable from a generator
    operation.  JITTER_ROUNDS (std feature, JitterRng::new only) is outside the default feature set and is reported if it
    ever becomes reachable from an output operation."""
    pr = PartResult('static:shared_state_scan')
    t0 = time.time()
    for crate in CRATES:
        try:
            feats = ['std'] if crate == 'rand_jitter' else []
            txt, _ = expand(crate, features=tuple(feats))
        except (Undecided, AnchorLost) as e:
            pr.undecided.append('%s: %s' % (crate, e))
            continue
        cr = Crate(txt)
        msk = cr.masked
        statics = []
        for p in cr.order:
            it = cr.index[p]
            if it.kind == 'static':
                statics.append((p, it.name, cr.src(it)))
        # also statics declared inside function bodies
        for m in re.finditer(r'(?<![A-Za-z0-9_])static\s+(mut\s+)?([A-Z_][A-Z0-9_]*)\s*:', msk):
            nm = m.group(2)
            if not any(nm == s[1] for s in statics):
                statics.append(('(local)', nm, txt[m.start():m.start() + 120]))
        allowed = {('rand_jitter', 'JITTER_ROUNDS')}
        for p in cr.order:
            it = cr.index[p]
            if it.kind != 'fn' or it.body_open is None or '::tests::' in p or '::test::' in p:
                continue
            if crate == 'rand_jitter' and p.startswith('platform::'):
                continue      # the platform timer itself (std feature): the one ambient input JitterRng is defined over
            body = msk[it.body_open:it.body_close]
            hits = []
            for sp, nm, src in statics:
                if re.search(r'\b%s\b' % re.escape(nm), body):
                    if (crate, nm) in allowed and re.search(r'(^|::)(impl@JitterRng)(#\d+)?::new$', p):
                        continue
                    hits.append('uses static %s' % nm)
            for m in SHARED.finditer(body):
                tok = m.group(1)
                if (crate == 'rand_jitter' and re.search(r'::new$', p) and tok.startswith('Atomic')):
                    continue
                hits.append('mentions %s' % tok)
            if re.search(r'\bthread_local\b|\bstd::env\b|\bSystemTime\b|\bInstant\b', body):
                hits.append('reads ambient state')
            st = FAILED if hits else DISCHARGED
            pr.obs.append(Ob('frame:%s::%s' % (crate, p), ['C19'], st, 'rustc-expansion-scan', fn='%s::%s' % (crate, p), kind='frame-scan',
                             text='frame of the function is contained in {self, parameters}: no static / interior-mutable / ambient state',
                             detail=[dict(message='; '.join(sorted(set(hits))))] if hits else []))
        pr.info[crate] = dict(statics=[s[1] for s in statics])
    pr.cmd = 'scan of cargo +nightly rustc -- -Zunpretty=expanded output'
    pr.wall_s = time.time() - t0
    return pr


def send_sync():
    """C19 item 3: `Send + Sync` for every generator / core type (JitterRng<F> for F: Send + Sync) – compile-time
    obligations discharged by rustc on the real crates (replay crate, `cargo check`)."""
    pr = PartResult('static:send_sync')
    t0 = time.time()
    env = dict(os.environ, CARGO_TARGET_DIR=os.path.join(WORK, 'replay-target'), CARGO_NET_OFFLINE='true')
    env.pop('RUSTFLAGS', None)
    r = subprocess.run(['cargo', 'check', '--offline', '--quiet', '--features', 'send_sync_obligations'], cwd=os.path.join(ROOT, 'replay'), env=env,
                       stdout=subprocess.PIPE, stderr=subprocess.PIPE, text=True)
    src = open(os.path.join(ROOT, 'replay', 'src', 'send_sync.rs')).read()
    types = re.findall(r'assert_send_sync::<([^>]+(?:<[^>]*>)?)>\(\)', src)
    ok = r.returncode == 0
    for t in types:
        failed = (not ok) and (t.split('<')[0].split('::')[-1] in r.stderr or True)
        pr.obs.append(Ob('sendsync:' + t, ['C19'], DISCHARGED if ok else FAILED, 'rustc', fn=t, kind='auto-trait',
                         text='%s: Send + Sync' % t, detail=[] if ok else [dict(message='rustc rejected the Send/Sync obligations', rendered=r.stderr[-2500:])]))
    pr.cmd = 'cargo check --features send_sync_obligations (replay crate, path dependencies on /repo)'
    pr.wall_s = time.time() - t0
    return pr


DEBUG_IMPLS = {
    'rand_xorshift': [('Debug@XorShiftRng::fmt', 'XorShiftRng {}')],
    'rand_hc': [('hc128::Debug@Hc128Core::fmt', 'Hc128Core {}')],
    'rand_isaac': [('isaac::Debug@IsaacCore::fmt', 'IsaacCore {}'), ('isaac64::Debug@Isaac64Core::fmt', 'Isaac64Core {}')],
    'rand_jitter': [('Debug@JitterRng::fmt', 'JitterRng {}')],
}
WRAPPERS = {
    'rand_hc': [('hc128::Debug@Hc128Rng::fmt', 'Hc128Rng')],
    'rand_isaac': [('isaac::Debug@IsaacRng::fmt', 'IsaacRng'), ('isaac64::Debug@Isaac64Rng::fmt', 'Isaac64Rng')],
}


def debug_frame():
    """C17 (frame obligation): the custom Debug impls of the state-hiding types do not read `self` at all - their
    expanded bodies write one literal; the derived impls of the BlockRng wrappers pass only `self.0` (the rand_core
    BlockRng, whose Debug prints the core - custom impl above -, the buffer length and the public read position)."""
    pr = PartResult('static:debug_frame')
    t0 = time.time()
    for crate, impls in DEBUG_IMPLS.items():
        try:
            txt, _ = expand(crate)
            cr = Crate(txt)
        except (Undecided, AnchorLost) as e:
            pr.undecided.append('%s: %s' % (crate, e))
            continue
        for path, literal in impls + WRAPPERS.get(crate, []):
            if path not in cr.index:
                pr.obs.append(Ob('debugframe:%s::%s' % (crate, path), ['C17'], UNDECIDED, 'rustc-expansion-scan', fn=path, kind='frame-scan',
                                 text='Debug impl not found (anchor lost)', detail=[dict(message='anchor lost')]))
                continue
            it = cr.index[path]
            body_m = cr.masked[it.body_open:it.body_close]
            body = cr.text[it.body_open:it.body_close]
            if (path, literal) in impls:
                uses_self = re.search(r'\bself\b', body_m) is not None
                has_lit = ('"%s"' % literal.replace('{', '{{').replace('}', '}}')) in body or ('"%s"' % literal) in body
                ok = (not uses_self) and has_lit
                msg = 'body mentions self' if uses_self else ('literal %r not found' % literal if not has_lit else '')
                text = 'fmt body does not mention `self` and writes the literal "%s"' % literal
            else:
                uses = re.findall(r'self\.[A-Za-z0-9_]+', body_m)
                ok = set(uses) <= {'self.0'} and ('"%s"' % literal) in body and 'debug_tuple_field1_finish' in body_m
                msg = '' if ok else 'derived wrapper Debug prints more than the inner BlockRng: %s' % sorted(set(uses))
                text = 'derived Debug passes only `self.0` (the BlockRng) to the formatter'
            pr.obs.append(Ob('debugframe:%s::%s' % (crate, path), ['C17'], DISCHARGED if ok else FAILED, 'rustc-expansion-scan', fn=crate + '::' + path,
                             kind='frame-scan', text=text, detail=[] if ok else [dict(message=msg, rendered=body[:800])]))
    pr.cmd = 'scan of cargo +nightly rustc -- -Zunpretty=expanded output (Debug impls)'
    pr.wall_s = time.time() - t0
    return pr


# the three buffered generators are newtypes over rand_core's BlockRng / BlockRng64 (dependency code, decided by the Kani harnesses
# on the real rand_core); what the repository itself contributes is the forwarding, which must be verbatim
FORWARD = {
    'rand_hc': [('hc128', 'Hc128Rng', 'Hc128Core', 'BlockRng', 'hc128', 'C02', False)],
    'rand_isaac': [('isaac', 'IsaacRng', 'IsaacCore', 'BlockRng', 'isaac', 'C03', True),
                   ('isaac64', 'Isaac64Rng', 'Isaac64Core', 'BlockRng64', 'isaac64', 'C03', True)],
}


def forwarding():
    """C05 / C09 / C02 / C03 (frame-style obligation): every RngCore and SeedableRng method of Hc128Rng, IsaacRng and Isaac64Rng is
    exactly one call of the method of the same name on the wrapped BlockRng (resp. of BlockRng::<Core>::<constructor>), so the
    wrapper behaves as rand_core's BlockRng over the core under contract.  A body of any other shape is UNDECIDED, never a violation:
    it sends the property to the differential / Kani fallbacks."""
    pr = PartResult('static:forwarding')
    t0 = time.time()
    pr.undecided_units = set()
    for crate, ws in FORWARD.items():
        try:
            txt, _ = expand(crate)
            cr = Crate(txt)
        except (Undecided, AnchorLost) as e:
            pr.undecided.append('%s: %s' % (crate, e))
            continue
        for mod, W, core, blk, unit, cprop, has_u64 in ws:
            exp = {
                '%s::RngCore@%s::next_u32' % (mod, W): ('{ self.0.next_u32() }', 'C05 ' + cprop),
                '%s::RngCore@%s::next_u64' % (mod, W): ('{ self.0.next_u64() }', 'C05 ' + cprop),
                '%s::RngCore@%s::fill_bytes' % (mod, W): ('{ self.0.fill_bytes(dest) }', 'C05 ' + cprop),
                '%s::SeedableRng@%s::from_seed' % (mod, W): ('{ %s(%s::<%s>::from_seed(seed)) }' % (W, blk, core), 'C09 ' + cprop),
                '%s::SeedableRng@%s::from_rng' % (mod, W): ('{ %s(%s::<%s>::from_rng(rng)) }' % (W, blk, core), 'C09'),
                '%s::SeedableRng@%s::try_from_rng' % (mod, W): ('{ %s::<%s>::try_from_rng(rng).map(%s) }' % (blk, core, W), 'C09'),
            }
            # derived Clone of the newtype: clones the wrapped BlockRng (core, buffer, read position - rand_core's derive)
            exp['%s::Clone@%s::clone' % (mod, W)] = ('{ %s(::core::clone::Clone::clone(&self.0)) }' % W, 'C10')
            if has_u64:
                exp['%s::SeedableRng@%s::seed_from_u64' % (mod, W)] = ('{ %s(%s::<%s>::seed_from_u64(seed)) }' % (W, blk, core), 'C09')
            # no further methods in these two impls (an added override is new code)
            for tr in ('RngCore', 'SeedableRng', 'Clone'):
                pre = '%s::%s@%s::' % (mod, tr, W)
                for q in cr.order:
                    if q.startswith(pre) and cr.index[q].kind == 'fn' and q not in exp and q.count('::') == pre.count('::'):
                        exp[q] = (None, 'C05 ' + cprop if tr == 'RngCore' else 'C10' if tr == 'Clone' else 'C09')
            for path, (want, props) in exp.items():
                oid = 'forward:%s::%s' % (crate, path)
                if path not in cr.index:
                    st, msg, body = UNDECIDED, 'method not found (anchor lost)', ''
                else:
                    it = cr.index[path]
                    body = re.sub(r'\s+', ' ', cr.text[it.body_open:it.body_close + 1]).strip()
                    norm = lambda t: re.sub(r'\s+', '', t)
                    if want is None:
                        st, msg = UNDECIDED, 'method is not part of the committed forwarding table (new override)'
                    elif norm(body) == norm(want):
                        st, msg = DISCHARGED, ''
                    else:
                        st, msg = UNDECIDED, 'body is not the verbatim forwarding call %s' % want
                if st == UNDECIDED:
                    pr.undecided.append('%s: %s' % (path, msg))
                    pr.undecided_units.add(unit)
                pr.obs.append(Ob(oid, props.split(), st, 'rustc-expansion-scan', fn=crate + '::' + path, kind='forwarding',
                                 text='body == %s' % want, detail=[] if st == DISCHARGED else [dict(message=msg, rendered=body[:600])]))
    pr.cmd = 'scan of cargo +nightly rustc -- -Zunpretty=expanded output (BlockRng wrappers)'
    pr.wall_s = time.time() - t0
    return pr


def run(name):
    return dict(cfg_invariance=cfg_invariance, shared_state_scan=shared_state_scan, send_sync=send_sync, debug_frame=debug_frame, jumpcheck=jumpcheck, forwarding=forwarding)[name]()


def jumpcheck():
    """C06, the closed arithmetic fact: the reference jump polynomials J_ref (recomputed by tools/jumppoly.py) satisfy
    J_ref(T) == T^(2^k) as linear maps, for all five reference engines and both exponents.  Decided by a Verus-verified
    executable checker (tools/gen_jumpcheck.py): Verus proves `check(..) == true ==> forall s. poly(T, J, s, n) == iter(T, s, 2^k)`,
    `verus --compile` builds it and the run returns true/false per (engine, exponent)."""
    import importlib.util
    pr = PartResult('jumpcheck')
    t0 = time.time()
    d = os.path.join(WORK, 'jumpcheck')
    os.makedirs(d, exist_ok=True)
    sp = importlib.util.spec_from_file_location('gen_jumpcheck', os.path.join(ROOT, 'tools', 'gen_jumpcheck.py'))
    gj = importlib.util.module_from_spec(sp)
    sp.loader.exec_module(gj)
    src = os.path.join(d, 'jumpcheck.rs')
    open(src, 'w').write(gj.gen())
    cmd = ['verus', src, '--compile', '--triggers-mode', 'silent', '--rlimit', '200', '--num-threads', '8', '--output-json', '--', '-C', 'opt-level=3']
    r = subprocess.run(cmd, cwd=d, stdout=subprocess.PIPE, stderr=subprocess.PIPE, text=True)
    verified = errors = None
    try:
        import json
        js = json.loads(r.stdout[r.stdout.index('{'):])
        verified = js['verification-results']['verified']
        errors = js['verification-results']['errors']
    except Exception:
        pass
    pr.cmd = ' '.join(cmd) + ' ; ./jumpcheck'
    pr.info = dict(checker_source=src, functions_verified=verified, verification_errors=errors)
    binp = os.path.join(d, 'jumpcheck')
    if errors != 0 or not os.path.exists(binp):
        pr.undecided.append('the jump-polynomial checker did not verify/compile (verified=%s errors=%s): %s' % (verified, errors, r.stderr[-800:]))
        pr.wall_s = time.time() - t0
        return pr
    run = subprocess.run([binp], cwd=d, stdout=subprocess.PIPE, stderr=subprocess.PIPE, text=True)
    lines = [l for l in run.stdout.splitlines() if l.startswith('JUMPCHECK')]
    if len(lines) != 10:
        pr.undecided.append('checker produced %d result lines' % len(lines))
    for l in lines:
        _, eng, label, exp, verdict = l.split()
        if verdict == 'OK':
            pr.obs.append(Ob('jumpcheck:%s:%s' % (eng, label), ['C06'], DISCHARGED, 'verus-verified checker (compiled, executed)', fn='reference engine ' + eng,
                             kind='closed-fact', text='J_ref(T) == T^(2^k) on every state, %s %s %s' % (eng, label, exp)))
        else:
            # the recomputed polynomial is not x^(2^k) mod minpoly(T): an inconsistency of the reference computation, not of /repo
            pr.undecided.append('reference polynomial for %s %s does not equal T^(2^k): %s' % (eng, label, l))
    os.remove(binp)
    pr.wall_s = time.time() - t0
    return pr
