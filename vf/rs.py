"""Minimal Rust lexical utilities: enough to slice rustc's pretty-printed
(-Zunpretty=expanded) output into items and function bodies.

Everything here works on the *text*; nothing is re-printed, so what is sliced
out is byte-for-byte what rustc printed.
"""
import re


class AnchorLost(Exception):
    """An item / loop / statement the contracts refer to was not found.
    Always reported as UNDECIDED (exit 2), never as a violation."""


def mask(text):
    """Return a copy of text in which the contents of comments, string
    literals and char literals are replaced by spaces (same length), so that
    brace matching and regexes cannot be fooled by them."""
    out = list(text)
    i, n = 0, len(text)
    while i < n:
        c = text[i]
        if c == '/' and i + 1 < n and text[i + 1] == '/':
            j = text.find('\n', i)
            if j < 0:
                j = n
            for k in range(i, j):
                out[k] = ' '
            i = j
        elif c == '/' and i + 1 < n and text[i + 1] == '*':
            depth, j = 1, i + 2
            while j < n and depth:
                if text.startswith('/*', j):
                    depth += 1
                    j += 2
                elif text.startswith('*/', j):
                    depth -= 1
                    j += 2
                else:
                    j += 1
            for k in range(i, j):
                if out[k] != '\n':
                    out[k] = ' '
            i = j
        elif c == '"' or (c == 'r' and re.match(r'r#*"', text[i:i + 8]) and (i == 0 or not (text[i - 1].isalnum() or text[i - 1] == '_'))) \
                or (c == 'b' and i + 1 < n and text[i + 1] == '"' and (i == 0 or not (text[i - 1].isalnum() or text[i - 1] == '_'))):
            if c == 'b':
                i += 1
                c = '"'
            if c == 'r':
                m = re.match(r'r(#*)"', text[i:])
                hashes = m.group(1)
                start = i + len(m.group(0))
                end = text.find('"' + hashes, start)
                if end < 0:
                    end = n
                for k in range(start, end):
                    if out[k] != '\n':
                        out[k] = ' '
                i = end + 1 + len(hashes)
            else:
                j = i + 1
                while j < n and text[j] != '"':
                    if text[j] == '\\':
                        j += 1
                    j += 1
                for k in range(i + 1, min(j, n)):
                    if out[k] != '\n':
                        out[k] = ' '
                i = j + 1
        elif c == "'":
            # char literal or lifetime
            m = re.match(r"'(\\.[^']*|[^'\\])'", text[i:i + 12])
            if m:
                for k in range(i + 1, i + len(m.group(0)) - 1):
                    out[k] = ' '
                i += len(m.group(0))
            else:
                i += 1
        else:
            i += 1
    return ''.join(out)


_OPEN = {'{': '}', '(': ')', '[': ']'}
_CLOSE = {'}', ')', ']'}


def match_close(masked, i):
    """masked[i] is an opening bracket; return index of its partner."""
    stack = []
    n = len(masked)
    j = i
    while j < n:
        c = masked[j]
        if c in _OPEN:
            stack.append(_OPEN[c])
        elif c in _CLOSE:
            if not stack or stack[-1] != c:
                raise AnchorLost('unbalanced bracket at offset %d' % j)
            stack.pop()
            if not stack:
                return j
        j += 1
    raise AnchorLost('unterminated bracket at offset %d' % i)


class Item:
    """One item of a module / impl block / function body."""
    __slots__ = ('kind', 'name', 'start', 'end', 'head_end', 'body_open', 'body_close', 'attrs_start', 'header')

    def __repr__(self):
        return 'Item(%s %s %d..%d)' % (self.kind, self.name, self.start, self.end)


_KW = re.compile(r'\b(mod|impl|fn|struct|enum|const|static|use|type|trait|extern|macro_rules|union)\b')


def _skip_ws(masked, i, end):
    while i < end and masked[i].isspace():
        i += 1
    return i


def items(text, masked, lo, hi):
    """Enumerate the items found between offsets lo..hi (the inside of a
    module, impl block or the crate root).  Attributes and doc comments
    preceding an item belong to it (attrs_start)."""
    res = []
    i = lo
    while True:
        i = _skip_ws(masked, i, hi)
        if i >= hi:
            break
        attrs_start = i
        # attributes
        while masked.startswith('#', i):
            j = i + 1
            if masked.startswith('!', j):
                j += 1
            j = _skip_ws(masked, j, hi)
            if j < hi and masked[j] == '[':
                i = match_close(masked, j) + 1
                i = _skip_ws(masked, i, hi)
            else:
                break
        if i >= hi:
            break
        start = i
        # item header: scan to the first `{` or `;` at bracket depth 0
        j = i
        depth = 0
        angle = 0
        kind = None
        name = None
        m = _KW.search(masked, i, hi)
        # the keyword must come before any `{` or `;`
        stop = None
        k = i
        while k < hi:
            c = masked[k]
            if c in '([':
                k = match_close(masked, k) + 1
                continue
            if c == '{' or c == ';':
                stop = k
                break
            k += 1
        if stop is None:
            # trailing tokens (e.g. stray `;`) – ignore
            break
        if re.match(r'\s*(pub(\([^)]*\))?\s+)?use\b', masked[start:stop + 1]) and masked[stop] == '{':
            # `use a::{b, c};` – the brace is part of the path list
            stop = masked.find(';', match_close(masked, stop), hi)
            if stop < 0:
                break
        header = masked[start:stop]
        if header.strip() == '':
            # stray `;`
            i = stop + 1
            continue
        m = _KW.search(header)
        it = Item()
        it.attrs_start = attrs_start
        it.start = start
        it.header = text[start:stop]
        if m:
            kind = m.group(1)
            # qualifiers like `pub`, `pub(crate)`, `unsafe`, `const fn`
            if kind == 'const' and re.search(r'\bfn\b', header[m.end():]):
                kind = 'fn'
            if kind == 'extern' and re.search(r'\bfn\b', header[m.end():]):
                kind = 'fn'
            if kind == 'fn':
                mm = re.search(r'\bfn\s+([A-Za-z_][A-Za-z0-9_]*)', header)
                name = mm.group(1)
            elif kind == 'impl':
                name = impl_name(header)
            elif kind in ('mod', 'struct', 'enum', 'trait', 'type', 'union', 'const', 'static'):
                mm = re.search(r'\b' + kind + r'\s+(?:mut\s+)?([A-Za-z_][A-Za-z0-9_]*)', header)
                name = mm.group(1) if mm else None
            elif kind == 'use':
                name = header[m.end():].strip()
        else:
            kind = 'other'
        it.kind = kind
        it.name = name
        if masked[stop] == '{':
            close = match_close(masked, stop)
            it.body_open = stop
            it.body_close = close
            end = close + 1
            # `struct X { .. }` has no trailing `;`; `const X: T = { .. };` may
            if kind in ('const', 'static', 'other', 'use'):
                k2 = _skip_ws(masked, end, hi)
                # const with block initialiser: continue to `;`
                if kind in ('const', 'static'):
                    k3 = masked.find(';', end, hi)
                    if k3 >= 0:
                        end = k3 + 1
            it.end = end
        else:
            it.body_open = it.body_close = None
            # `const X: [u64; 4] = [ … ];` – the `;` inside brackets was skipped above
            it.end = stop + 1
        it.head_end = stop
        res.append(it)
        i = it.end
    return res


def impl_name(header):
    """`impl<F> RngCore for JitterRng<F> where …` -> ('RngCore', 'JitterRng');
    `impl X` -> (None, 'X')."""
    h = re.sub(r'\s+', ' ', header.strip())
    h = re.sub(r'^(unsafe )?impl', '', h).strip()
    if h.startswith('<'):
        # strip generics
        depth = 0
        for k, c in enumerate(h):
            if c == '<':
                depth += 1
            elif c == '>':
                depth -= 1
                if depth == 0:
                    h = h[k + 1:].strip()
                    break
    h = re.split(r'\bwhere\b', h)[0].strip()
    if ' for ' in h:
        tr, ty = h.split(' for ', 1)
    else:
        tr, ty = None, h

    def base(p):
        p = p.strip()
        p = re.sub(r'<.*$', '', p)
        return p.split('::')[-1].strip()
    return (base(tr) if tr else None, base(ty))


class Crate:
    """Index of an expanded crate: path -> Item, with the path convention
    `mod::Type::fn`, `mod::Trait@Type::fn` for trait impls, and
    `…::outer::inner` for functions nested in function bodies."""

    def __init__(self, text):
        self.text = text
        self.masked = mask(text)
        self.index = {}
        self.order = []
        self._walk('', 0, len(text))

    def _add(self, path, it):
        if path in self.index:
            # keep the first, record duplicates with #n
            n = 2
            while '%s#%d' % (path, n) in self.index:
                n += 1
            path = '%s#%d' % (path, n)
        self.index[path] = it
        self.order.append(path)
        return path

    def _walk(self, prefix, lo, hi):
        for it in items(self.text, self.masked, lo, hi):
            if it.kind == 'mod' and it.body_open is not None:
                p = prefix + it.name
                self._add(p, it)
                self._walk(p + '::', it.body_open + 1, it.body_close)
            elif it.kind == 'impl':
                tr, ty = it.name
                p = prefix + (tr + '@' + ty if tr else 'impl@' + ty)
                p = self._add(p, it)
                self._walk_impl(p, it)
            elif it.kind == 'fn':
                p = prefix + it.name
                self._add(p, it)
                self._walk_fn(p + '::', it)
            elif it.kind in ('struct', 'enum', 'const', 'static', 'type', 'trait', 'union'):
                self._add(prefix + (it.name or '?'), it)
            elif it.kind == 'use':
                self._add(prefix + 'use ' + re.sub(r'\s+', '', it.name), it)

    def _walk_impl(self, p, impl):
        for it in items(self.text, self.masked, impl.body_open + 1, impl.body_close):
            if it.kind == 'fn':
                q = p + '::' + it.name
                self._add(q, it)
                self._walk_fn(q + '::', it)
            elif it.kind in ('const', 'type'):
                self._add(p + '::' + it.kind + ' ' + (it.name or '?'), it)

    def _walk_fn(self, prefix, fn):
        if fn.body_open is None:
            return
        # nested fn items: look for `fn name(` at any depth inside the body
        lo, hi = fn.body_open + 1, fn.body_close
        for m in re.finditer(r'(?<![A-Za-z0-9_])fn\s+([A-Za-z_][A-Za-z0-9_]*)\s*[<(]', self.masked[lo:hi]):
            s = lo + m.start()
            # header up to `{`
            k = s
            while k < hi and self.masked[k] != '{':
                if self.masked[k] in '([':
                    k = match_close(self.masked, k)
                k += 1
            if k >= hi:
                continue
            it = Item()
            it.kind = 'fn'
            it.name = m.group(1)
            it.attrs_start = it.start = s
            it.head_end = it.body_open = k
            it.body_close = match_close(self.masked, k)
            it.end = it.body_close + 1
            it.header = self.text[s:k]
            self._add(prefix + it.name, it)

    def get(self, path):
        if path not in self.index:
            raise AnchorLost('item not found in expanded crate: ' + path)
        return self.index[path]

    def src(self, it, with_attrs=False):
        return self.text[(it.attrs_start if with_attrs else it.start):it.end]
