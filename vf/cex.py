"""Counterexample search for a failed obligation (best effort; DESIGN §3.6)."""


def search(pid, ob, seed):
    return None


def replay(rec):
    print(rec.get('failing_input'))
    return 1
