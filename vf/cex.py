"""Counterexample search for a failed obligation (best effort; DESIGN §3.6).

Verus gives no model.  For a failed obligation the search drives the *real* crates of /repo (replay crate, dev profile:
overflow checks and debug assertions on) with structured, edge-biased inputs derived from the obligation, and keeps
the first input on which the real code misbehaves in the way the obligation forbids.  A found input is recorded in
the replay file and can be re-executed with `./check <ID> --replay <file>`.
"""
import os
import random
import subprocess

ROOT = os.path.dirname(os.path.dirname(os.path.abspath(__file__)))
WORK = os.path.join(ROOT, '.work')
BIN = os.path.join(WORK, 'replay-target', 'debug', 'rngs-replay')


def build_replay():
    env = dict(os.environ, CARGO_TARGET_DIR=os.path.join(WORK, 'replay-target'), CARGO_NET_OFFLINE='true')
    env.pop('RUSTFLAGS', None)
    lock = os.path.join(ROOT, 'replay', 'Cargo.lock')
    r = subprocess.run(['cargo', 'build', '--offline', '--quiet'], cwd=os.path.join(ROOT, 'replay'), env=env,
                       stdout=subprocess.PIPE, stderr=subprocess.PIPE, text=True)
    if r.returncode != 0:
        raise RuntimeError('replay crate does not build against the current /repo:\n' + r.stderr[-2000:])


def run_replay(args, timeout=10):
    try:
        r = subprocess.run([BIN] + [str(a) for a in args], stdout=subprocess.PIPE, stderr=subprocess.PIPE, text=True, timeout=timeout)
    except subprocess.TimeoutExpired:
        # e.g. a JitterRng output call legitimately does not return while its timer stays stuck
        return 'RESULT timeout'
    out = [l for l in r.stdout.splitlines() if l.startswith('RESULT')]
    return out[-1] if out else 'RESULT none ' + r.stderr[-300:]


# ---- jitter: families of scripted timers -----------------------------------------------------------------------

def jitter_scripts(seed):
    """(call, rounds, base, deltas) candidates.  Reading k of the scripted timer is base + sum(deltas[0..k)), the delta
    list repeating cyclically.  One probe / measurement consumes several readings, so per-probe deltas are sums."""
    rnd = random.Random(seed)
    big = [1 << 30, 1 << 31, (1 << 31) - 1, (1 << 31) + 1, 3 << 29, (1 << 32) - 1, 1 << 32, (1 << 32) + 1, 1 << 33, (1 << 63), (1 << 64) - 1]
    out = []
    for d in big:
        out.append(('next_u64', 1, d, [d]))
        out.append(('next_u64', 1, 1000, [5, 1, 1, d]))
    # probe deltas alternating between two large values of opposite sign (as i32)
    for a, b in [(2147483640, 2147483650), (2147483000, 2147484000), (100, 4294967000), (4294967290, 10)]:
        out.append(('test_timer', 0, 1000, [5, 1, 1, a, 5, 1, 1, b]))
        out.append(('next_u64', 2, 1000, [5, 1, 1, a, 5, 1, 1, b]))
    # small alternating probe deltas: mean absolute change around the table / log2 boundaries
    for lo in range(1, 40):
        for step in (1, 2, 3):
            out.append(('set_rounds_test_timer', 0, 1000, [5, 1, 1, lo, 5, 1, 1, lo + step]))
    for _ in range(40):
        n = rnd.choice([2, 3, 4, 8])
        out.append((rnd.choice(['next_u64', 'test_timer', 'set_rounds_test_timer']), rnd.choice([0, 1, 3]), rnd.getrandbits(rnd.choice([8, 32, 64])) | 1,
                    [rnd.choice([1, 2, 7, 100, rnd.getrandbits(rnd.choice([4, 31, 32, 33, 64])) | 1]) for _ in range(n)]))
    return out


def jitter_bad(pid, ob, call, res):
    """Does the observed behaviour of the real code violate what the failed obligation (of property pid) demands?"""
    if 'RESULT panic' in res:
        # the only documented panic is set_rounds(0) called by the user; a panic inside an output call or test_timer is a C14 matter,
        # `set_rounds(test_timer()?)` tripping the assertion is a C13 matter
        if pid == 'C13':
            return 'rounds > 0' in res
        return 'rounds > 0' not in res or call == 'set_rounds_test_timer'
    if pid == 'C13' and call in ('test_timer', 'set_rounds_test_timer'):
        return 'Ok(0)' in res
    return False


_JP = {}


def jump_target(ob):
    """(generator type, 'jump'|'long_jump', reference polynomial words) when the obligation belongs to a jump function of the xoshiro unit."""
    import re, importlib.util
    m = re.search(r'impl@(Xo(?:ro)?shiro\d+\w+?)::(long_jump|jump)\b', ob.fn or '') or re.search(r'impl@(Xo(?:ro)?shiro\d+\w+?)::(long_jump|jump)\b', ob.id)
    if not m:
        return None
    gen, which = m.group(1), m.group(2)
    eng = {'Xoroshiro128Plus': 'xoro128a', 'Xoroshiro128StarStar': 'xoro128a', 'Xoroshiro128PlusPlus': 'xoro128b'}.get(gen) or \
        ('xosh128' if '128' in gen else 'xosh256' if '256' in gen else 'xosh512')
    if not _JP:
        spec = importlib.util.spec_from_file_location('jumppoly', os.path.join(ROOT, 'tools', 'jumppoly.py'))
        jp = importlib.util.module_from_spec(spec)
        spec.loader.exec_module(jp)
        _JP.update(jp.compute())
    return gen, which, _JP[eng][which]['words']


def search(pid, ob, seed):
    if ob.backend in ('replay-differential', 'replay-sweep'):
        for d in ob.detail or []:
            if d.get('failing_input'):
                return d['failing_input']
        return None
    if ob.backend.startswith('kani'):
        # Kani's own counterexample: the concrete values of every kani::any() of the failing harness (concrete playback);
        # the harness runs the real compiled code, so re-running it *is* the replay on the real code
        pb = ''
        for d in ob.detail or []:
            pb = d.get('concrete_playback') or pb
        if pb.strip():
            return dict(kind='kani_harness', harness=ob.id.split(':', 1)[1], location=ob.fn, concrete_playback=pb[:6000],
                        explanation='values of the symbolic inputs on which the assertion of the harness fails; `./check --replay` re-runs the harness on the current tree')
        return None
    jm = jump_target(ob)
    if pid == 'C06' and jm:
        # the real jump()/long_jump() against J_ref(T) applied to the same state (J_ref: tools/jumppoly.py, confirmed by the verified checker)
        build_replay()
        gen, which, poly = jm
        rnd = random.Random(seed + 5)
        for k in range(8):
            nbytes = {'128': 16, '256': 32, '512': 64}[''.join(c for c in gen if c.isdigit())]
            sd = bytes([1] + [0] * (nbytes - 1)) if k == 0 else bytes(rnd.getrandbits(8) for _ in range(nbytes))
            res = run_replay(['jump', gen, which, sd.hex(), ','.join(str(x) for x in poly)], timeout=60)
            if 'MISMATCH' in res or 'RESULT panic' in res:
                return dict(kind='jump_diff', generator=gen, call=which, seed_hex=sd.hex(), poly=poly, observed=res,
                            explanation='%s::from_seed(seed).%s(): the state afterwards differs from J_ref(T) applied to the state before (T = the real native step, state observed through serde)' % (gen, which))
        return None
    unit = (ob.id.split('.')[0] if '.' in ob.id.split('#')[0].split('::')[0] else None)
    in_jitter = ob.id.startswith('jitter.') or 'JitterRng' in ob.fn or 'EcState' in ob.fn
    if in_jitter and 'discards_pending_half' in ob.id:
        build_replay()
        import re
        for n in (1, 2, 3, 4, 5, 8):
            call = 'seq:next_u32+fill:%d' % n
            res = run_replay(['jitter', call, 2, 1000, '3,7,11,5,13'])
            m = re.search(r'\[fill:%d -> \S+ reads\+(\d+)\]' % n, res)
            if m and int(m.group(1)) == 0:
                return dict(kind='jitter_timer_script', call=call, rounds=2, base=1000, deltas=[3, 7, 11, 5, 13], observed=res, expect='fill_reads_timer',
                            explanation='history next_u32(); fill_bytes(%d): the fill_bytes call reads the timer 0 times, i.e. it hands out the pending high half instead of starting a fresh collection' % n)
        return None
    if in_jitter:
        build_replay()
        for call, rounds, base, deltas in jitter_scripts(seed):
            if pid == 'C13' and call == 'next_u64':
                continue
            res = run_replay(['jitter', call, rounds, base, ','.join(str(d) for d in deltas)])
            if jitter_bad(pid, ob, call, res):
                return dict(kind='jitter_timer_script', call=call, rounds=rounds, base=base, deltas=deltas, observed=res,
                            explanation='scripted timer: reading k returns base + sum of the first k deltas (cyclic); real rand_jitter code, dev profile')
        # differential search: the real code against the executable twin of the specification on the same scripted timers
        import time as _t
        t0 = _t.time()
        for call, rounds, base, deltas in jitter_diff_candidates(seed, pid):
            if _t.time() - t0 > 90:
                break
            res = run_replay(['jitter', call, rounds, base, ','.join(str(d) for d in deltas)])
            if 'MISMATCH' in res:
                return dict(kind='jitter_timer_script', call=call, rounds=rounds, base=base, deltas=deltas, observed=res, expect='agree',
                            explanation='differential run: real rand_jitter (dev profile) vs. the executable twin of the specification on the same scripted timer')
    return None


def replay(rec):
    ce = rec['failing_input']
    if ce['kind'] == 'isaac_serde_sweep':
        build_replay()
        res = run_replay(['serde-positions'], timeout=600)
        print('recorded : ' + ce['observed'])
        print('observed : ' + res)
        bad = not res.startswith('RESULT ok')
        print('the violation %s' % ('REPRODUCES' if bad else 'does not reproduce on the current tree'))
        return 1 if bad else 0
    if ce['kind'] == 'kani_harness':
        from . import kani
        for setname, hs in kani.SETS.items():
            for h in hs:
                if h.name == ce['harness']:
                    out, secs, to, cmd = kani.run_harness(h)
                    verdict = kani.parse(out)[0]
                    print('re-running Kani harness %s on the current tree: %s (%.0fs)' % (h.qual, verdict, secs))
                    print('recorded concrete values:\n' + ce.get('concrete_playback', '')[:3000])
                    print('the violation %s' % ('REPRODUCES' if verdict == 'FAILED' else 'does not reproduce on the current tree'))
                    return 1 if verdict == 'FAILED' else 0
        print('harness not found: ' + ce['harness'])
        return 2
    if ce['kind'] == 'isaac_diff':
        build_replay()
        res = run_replay(['isaac-diff', ce.get('blocks', 20000)], timeout=900)
        print('recorded : ' + ce['observed'])
        print('observed : ' + res)
        bad = 'MISMATCH' in res or 'RESULT panic' in res
        print('the violation %s' % ('REPRODUCES' if bad else 'does not reproduce on the current tree'))
        return 1 if bad else 0
    if ce['kind'] == 'native_diff':
        build_replay()
        res = run_replay(ce['args'], timeout=900)
        print('recorded : ' + ce['observed'][:1500])
        print('observed : ' + res[:1500])
        bad = _verdict_for(ce.get('prop'), res)
        print('the violation %s' % ('REPRODUCES' if bad else 'does not reproduce on the current tree'))
        return 1 if bad else 0
    if ce['kind'] == 'stream_diff':
        build_replay()
        res = run_replay(['stream-diff', ce.get('seqs', 3000)], timeout=600)
        print('recorded : ' + ce['observed'][:1500])
        print('observed : ' + res[:1500])
        bad = 'MISMATCH' in res or 'RESULT panic' in res
        print('the violation %s' % ('REPRODUCES' if bad else 'does not reproduce on the current tree'))
        return 1 if bad else 0
    if ce['kind'] == 'jump_diff':
        build_replay()
        res = run_replay(['jump', ce['generator'], ce['call'], ce['seed_hex'], ','.join(str(x) for x in ce['poly'])], timeout=60)
        print('replaying on the real code: %s::from_seed(%s).%s()' % (ce['generator'], ce['seed_hex'], ce['call']))
        print('recorded : ' + ce['observed'])
        print('observed : ' + res)
        bad = 'MISMATCH' in res or 'RESULT panic' in res
        print('the violation %s' % ('REPRODUCES' if bad else 'does not reproduce on the current tree'))
        return 1 if bad else 0
    if ce['kind'] == 'jitter_timer_script':
        build_replay()
        res = run_replay(['jitter', ce['call'], ce['rounds'], ce['base'], ','.join(str(d) for d in ce['deltas'])])
        print('replaying on the real code: call=%s rounds=%s base=%s deltas=%s' % (ce['call'], ce['rounds'], ce['base'], ce['deltas']))
        print('recorded : ' + ce['observed'])
        print('observed : ' + res)
        if ce.get('expect') == 'agree':
            bad = _verdict_for(ce.get('prop') or rec.get('property'), res)
        elif ce.get('expect') == 'fill_reads_timer':
            import re
            m = re.search(r'\[fill:\d+ -> \S+ reads\+(\d+)\]', res)
            bad = bool(m) and int(m.group(1)) == 0
        else:
            bad = jitter_bad(rec['property'], None, ce['call'], res)
        print('the violation %s' % ('REPRODUCES' if bad else 'does not reproduce on the current tree'))
        return 1 if bad else 0
    print(ce)
    return 1


# ---- differential fallback for rand_jitter (real code vs. executable twin of the specification) -----------------------

def jitter_diff_candidates(seed, prop):
    rnd = random.Random(seed + 17)
    seqs = {
        'C12': ['next_u64', 'next_u64+next_u32+next_u32+next_u64', 'fill:16+next_u32', 'next_u32+next_u64'],
        'C05': ['next_u32+next_u32+next_u32', 'fill:13+next_u64', 'fill:8+fill:5+fill:3', 'next_u64+fill:20'],
        'C16': ['next_u32+fill:8+next_u32', 'next_u32+fill:12+next_u32', 'next_u32+next_u64+next_u32', 'next_u32+clone_next_u32+next_u32',
                'next_u32+fill:32+next_u32', 'next_u32+next_u32+next_u32+fill:5+next_u32', 'next_u64+clonefrom_next_u32+next_u32'],
        'C13': ['test_timer'],
        'C14': ['next_u64', 'test_timer', 'fill:9'],
    }.get(prop, ['next_u64', 'test_timer'])
    scripts = []
    big = [1 << 31, (1 << 31) + 5, 3 << 30, (1 << 32) + 7, 1 << 32, 1 << 33, (1 << 63) + 3, (1 << 64) - 5]
    for a in (3, 7, 40, 1000, 123457):
        scripts.append((1000, [a, a + 1, a + 5, 2 * a + 1, a + 2]))
    for b in big:
        scripts.append((1000, [5, 1, 1, b, 9, 2, 3, 17]))
        scripts.append(((1 << 63) - 20, [7, 3, b % 1000 + 1, 11]))
        scripts.append((12345, [5, 1, 1, 1000, 5, 1, 1, b]))
    for m in (1 << 32, 2 << 32, 1 << 33, 1 << 40):
        # one probe / measurement delta that is an exact non-zero multiple of 2^32 (truncates to 0), others ordinary
        scripts.append((1000, [5, 1, 1, 977, 5, 1, 1, m - 2, 5, 1, 1, 1311, 7, 1, 1, 1733]))
        scripts.append((1000, [5, 1, 1, m - 2]))
    for lo in list(range(1, 12)) + [15, 16, 17, 31, 32, 33, 63, 64, 100, 200]:
        scripts.append((1000, [5, 1, 1, lo, 5, 1, 1, lo + 1]))
        scripts.append((1000, [5, 1, 1, lo, 5, 1, 1, lo + 2, 5, 1, 1, lo + 7]))
    for _ in range(30):
        n = rnd.choice([3, 5, 8])
        scripts.append((rnd.getrandbits(rnd.choice([10, 40, 63])) | 1, [rnd.choice([1, 2, 9, 100, 4096, rnd.getrandbits(rnd.choice([5, 20, 31, 33])) | 1]) for _ in range(n)]))
    out = []
    if 'test_timer' in seqs:
        # an otherwise healthy clock (1 + 4 * 400 readings, odd steps 1001..5095) with ONE glitch: frozen during one probe
        # (warm-up probes included: the per-probe sanity checks apply to all 400), or not yet started at the first readings
        def healthy():
            r2 = random.Random(seed + 99)
            return [1001 + 2 * r2.randrange(2048) for _ in range(1700)]
        for p_ in (0, 50, 99, 100, 250, 399):
            d = healthy()
            d[1 + 4 * p_] = d[2 + 4 * p_] = d[3 + 4 * p_] = 0
            out.append(('diff:test_timer', 0, 1000, d))
        d = healthy(); d[0] = 0
        out.append(('diff:test_timer', 0, 0, d))
        d = healthy(); d[0] = d[1] = d[2] = d[3] = 0
        out.append(('diff:test_timer', 0, 0, d))
        out.append(('diff:test_timer', 0, 1000, healthy()))
    for sq in seqs:
        for base, deltas in scripts:
            for rounds in ((1, 3) if sq != 'test_timer' else (0,)):
                out.append(('diff:' + sq, rounds, base, deltas))
    return out


def jitter_diff_part(prop, seed=0, budget_s=240):
    """Fallback part: drive the REAL rand_jitter code and the executable twin of the specification with the same scripted
    timers; a MISMATCH is a violation with a concrete replay input.  Exploration only: agreeing runs prove nothing and are
    reported as a bounded stand-in."""
    from .parts import PartResult, Ob, DISCHARGED, FAILED
    import time as _t
    pr = PartResult('diff:jitter')
    t0 = _t.time()
    build_replay()
    n = 0
    found = None
    for call, rounds, base, deltas in jitter_diff_candidates(seed, prop):
        if _t.time() - t0 > budget_s:
            break
        res = run_replay(['jitter', call, rounds, base, ','.join(str(d) for d in deltas)])
        n += 1
        if _verdict_for(prop, res):
            found = dict(kind='jitter_timer_script', call=call, rounds=rounds, base=base, deltas=deltas, observed=res, expect='agree', prop=prop,
                         explanation='differential run: real rand_jitter (dev profile) vs. the executable twin of the specification on the same scripted timer')
            break
    ob = Ob('diff:jitter:%s' % prop, [prop], FAILED if found else DISCHARGED, 'replay-differential', fn='rand_jitter (public API)', kind='differential',
            text='%d scripted-timer runs, real code vs. specification twin' % n,
            detail=[dict(message=found['observed'], rendered=found['observed'], failing_input=found)] if found else [],
            bounded='exploration: %d scripted timers x call sequences' % n)
    pr.obs.append(ob)
    pr.cmd = 'replay/target/debug/rngs-replay jitter diff:<calls> <rounds> <base> <deltas>'
    pr.wall_s = _t.time() - t0
    return pr


def isaac_serde_sweep_part():
    """C11 bounded stand-in for IsaacRng / Isaac64Rng: native sweep over every snapshot point (replay crate, real crates with
    the serde feature, bincode)."""
    from .parts import PartResult, Ob, DISCHARGED, FAILED
    import time as _t
    pr = PartResult('sweep:isaac_serde')
    t0 = _t.time()
    build_replay()
    res = run_replay(['serde-positions'], timeout=600)
    bad = not res.startswith('RESULT ok')
    fi = dict(kind='isaac_serde_sweep', observed=res, explanation='native sweep over all snapshot points of IsaacRng / Isaac64Rng on the real crates (serde feature, bincode)')
    pr.obs.append(Ob('sweep:isaac_serde_positions', ['C11'], FAILED if bad else DISCHARGED, 'replay-sweep', fn='rand_isaac::{IsaacRng, Isaac64Rng}', kind='sweep',
                     text=res, detail=[dict(message=res, rendered=res, failing_input=fi)] if bad else [],
                     bounded='3 seeds x 2 blocks x 261 word offsets x {0,1,2} preceding next_u32 calls, 5 continuation patterns of 300 calls each'))
    pr.cmd = 'rngs-replay serde-positions'
    pr.wall_s = _t.time() - t0
    return pr


def isaac_diff_part(blocks=20000):
    """C03 fallback / thorough-tier exploration: the real IsaacRng and Isaac64Rng against a plain transcription of Jenkins' reference
    code, 12 seeds x `blocks` blocks each (rare data-dependent coincidences, about 2^-16 per step, need long runs).  Bounded: agreeing
    runs prove nothing."""
    from .parts import PartResult, Ob, DISCHARGED, FAILED
    import time as _t
    pr = PartResult('diff:isaac')
    t0 = _t.time()
    build_replay()
    res = run_replay(['isaac-diff', blocks], timeout=900)
    bad = 'MISMATCH' in res or 'RESULT panic' in res
    if not bad and not res.startswith('RESULT ok'):
        pr.undecided.append('isaac-diff did not complete: ' + res[:200])     # timeout / no output: not a verdict
    fi = dict(kind='isaac_diff', blocks=blocks, observed=res, explanation='native differential run on the real rand_isaac crate (dev profile) against a transcription of rand.c / isaac64.c')
    pr.obs.append(Ob('diff:isaac:C03', ['C03'], FAILED if bad else DISCHARGED, 'replay-differential', fn='rand_isaac::{IsaacRng, Isaac64Rng} (public API)', kind='differential',
                     text=res, detail=[dict(message=res, rendered=res, failing_input=fi)] if bad else [],
                     bounded='exploration: 12 seeds x %d blocks x 2 generators' % blocks))
    pr.cmd = 'rngs-replay isaac-diff %d' % blocks
    pr.wall_s = _t.time() - t0
    return pr


def stream_diff_part(seqs=3000):
    """C05 fallback / thorough-tier exploration: 19 generators x `seqs` random interleavings of next_u32 / next_u64 / fill_bytes(n)
    against a twin driven with native-width calls only, projected as the property documents.  Bounded: agreeing runs prove nothing."""
    from .parts import PartResult, Ob, DISCHARGED, FAILED
    import time as _t
    pr = PartResult('diff:stream')
    t0 = _t.time()
    build_replay()
    res = run_replay(['stream-diff', seqs], timeout=600)
    bad = 'MISMATCH' in res or 'RESULT panic' in res
    if not bad and not res.startswith('RESULT ok'):
        pr.undecided.append('stream-diff did not complete: ' + res[:200])
    fi = dict(kind='stream_diff', seqs=seqs, observed=res[:3000], explanation='native differential run on the real crates (dev profile): interleaved calls vs. the documented projection of the native word stream of an identically seeded twin')
    pr.obs.append(Ob('diff:stream:C05', ['C05'], FAILED if bad else DISCHARGED, 'replay-differential', fn='RngCore impls of all 19 deterministic generators (public API)', kind='differential',
                     text=res[:400], detail=[dict(message=res[:1500], rendered=res[:3000], failing_input=fi)] if bad else [],
                     bounded='exploration: 19 generators x %d histories of 14 calls' % seqs))
    pr.cmd = 'rngs-replay stream-diff %d' % seqs
    pr.wall_s = _t.time() - t0
    return pr


def _verdict_for(prop, res):
    """How a native differential run counts for a property: the functional properties take any disagreement with the reference or
    any panic; C14 (no panic) takes panics only; C18 (same behaviour in every build configuration) takes only panics that exist in
    one configuration only (overflow checks / debug assertions are on in the dev profile these runs use, off in release)."""
    panic = 'RESULT panic' in res
    if prop == 'C14':
        return panic
    if prop == 'C18':
        return panic and ('overflow' in res or 'debug_assert' in res or 'assertion' in res)
    return panic or 'MISMATCH' in res


def native_part(kind, prop):
    """diff:stream / diff:clone / diff:isaac - exploration parts on the replay crate (real crates, dev profile); bounded, can only
    report a violation."""
    from .parts import PartResult, Ob, DISCHARGED, FAILED
    import time as _t
    spec = {
        'stream': (['stream-diff', 3000], 600, 'C05', 'RngCore impls of all 19 deterministic generators (public API)',
                   'interleaved next_u32 / next_u64 / fill_bytes(n) vs. the documented projection of the native word stream of an identically seeded twin',
                   '19 generators x 3000 histories of 14 calls (fills up to 2400 bytes for the buffered generators)'),
        'clone': (['clone-diff'], 600, 'C10', 'Clone impls of all 19 deterministic generators (public API)',
                  'a.clone() and b.clone_from(&a) continue exactly like a (and compare equal to it where == exists); a is untouched',
                  '19 generators x 20 source positions x 20 destination positions'),
        'isaac': (['isaac-diff', 20000], 900, 'C03', 'rand_isaac::{IsaacRng, Isaac64Rng} (public API)',
                  'real output words vs. a transcription of rand.c / isaac64.c', '12 seeds x 20000 blocks x 2 generators'),
    }[kind]
    args, tmo, home, fn, what, bound = spec
    pr = PartResult('diff:' + kind)
    t0 = _t.time()
    build_replay()
    res = run_replay(args, timeout=tmo)
    p = prop or home
    bad = _verdict_for(p, res)
    if not res.startswith('RESULT ok') and 'RESULT panic' not in res:
        pr.undecided.append('%s did not complete: %s' % (args[0], res[:200]))
    fi = dict(kind='native_diff', args=[str(a) for a in args], prop=p, observed=res[:3000],
              explanation='native differential run on the real crates (dev profile): ' + what)
    pr.obs.append(Ob('diff:%s:%s' % (kind, p), [p], FAILED if bad else DISCHARGED, 'replay-differential', fn=fn, kind='differential',
                     text=what + ' - ' + res[:300], detail=[dict(message=res[:1500], rendered=res[:3000], failing_input=fi)] if bad else [],
                     bounded='exploration: ' + bound))
    pr.cmd = 'rngs-replay ' + ' '.join(str(a) for a in args)
    pr.wall_s = _t.time() - t0
    return pr
