"""Helpers shared by the unit builders."""
import glob
import os
import re

from .unit import REPO
from .rs import Crate, AnchorLost
from .weave import Fn, C, Loop, Insert, after, before, lit, weave_fn
from . import dialect

SHIMS = os.path.join(os.path.dirname(os.path.dirname(os.path.abspath(__file__))), 'contracts', 'shims')

PREAMBLE = '''use vstd::prelude::*;
use crate::shims::*;
use crate::rand_core::*;
use crate::rand_core::le::*;
use crate::spec::*;
'''


def rand_core_impls_text(unit):
    """rand_core's real `next_u64_via_u32` / `fill_bytes_via_next` from the registry copy named by Cargo.lock,
    woven with the generic contracts (verified once, for all generators and all n)."""
    lock = open(os.path.join(REPO, 'Cargo.lock')).read()
    m = re.search(r'name = "rand_core"\nversion = "([^"]+)"', lock)
    if not m:
        raise AnchorLost('rand_core not in Cargo.lock')
    ver = m.group(1)
    cands = glob.glob(os.path.expanduser('~/.cargo/registry/src/*/rand_core-%s/src/impls.rs' % ver))
    if not cands:
        raise AnchorLost('rand_core %s sources not found in the local registry' % ver)
    cr = Crate(open(cands[0]).read())
    unit.sources['rand_core-' + ver] = cands[0]
    out = []
    f1 = Fn('rand_core::impls::next_u64_via_u32', ret='res',
            sig_rewrites=[(r'<R: RngCore \+ \?Sized>', '<R: Next32>')],
            ensures=[C('rc.next_u64_via_u32.value', 'C05', 'res == via_u32::<R>(old(rng).v()).0'),
                     C('rc.next_u64_via_u32.state', 'C05', 'final(rng).v() == via_u32::<R>(old(rng).v()).1')],
            builtin_props='C14 C18')
    f2 = Fn('rand_core::impls::fill_bytes_via_next',
            sig_rewrites=[(r'<R: RngCore \+ \?Sized>', '<R: Next32 + Next64>')],
            ensures=[C('rc.fill_bytes_via_next.bytes', 'C05', 'final(dest)@ == fill_via_next::<R>(old(rng).v(), old(dest)@.len()).0'),
                     C('rc.fill_bytes_via_next.state', 'C05', 'final(rng).v() == fill_via_next::<R>(old(rng).v(), old(dest)@.len()).1')],
            loops={0: Loop(invariants=[
                C('rc.fill_bytes_via_next.inv.split', 'C05 C14', 'final(dest)@ == pre + final(left)@'),
                C('rc.fill_bytes_via_next.inv.len', 'C05 C14', 'pre.len() + left@.len() == n0'),
                C('rc.fill_bytes_via_next.inv.bytes', 'C05', 'fill_via_next::<R>(r0, n0).0 == pre + fill_via_next::<R>(rng.v(), left@.len()).0'),
                C('rc.fill_bytes_via_next.inv.state', 'C05', 'fill_via_next::<R>(r0, n0).1 == fill_via_next::<R>(rng.v(), left@.len()).1'),
            ], decreases='left.len()')},
            inserts=[after(lit('let mut left = dest;'),
                           'let ghost r0 = rng.v(); let ghost n0 = old(dest)@.len(); let ghost mut pre: Seq<u8> = Seq::empty();'),
                     after(lit('l.copy_from_slice(&chunk);'), 'proof { pre = pre + chunk@; }')],
            builtin_props='C14 C18')
    for name, fc in (('next_u64_via_u32', f1), ('fill_bytes_via_next', f2)):
        it = cr.get(name)
        s = dialect.apply(cr.src(it, with_attrs=True), unit.log).strip()
        from vf.weave import weave_fn
        fc.path = 'rand_core::impls::' + name
        unit.extracted[fc.path] = s
        unit.contracts[fc.path] = fc
        out.append(weave_fn(s, fc))
    return '\n'.join(out)




def rand_core_impls_rel_text(unit):
    """rand_core's real fill_bytes_via_next woven with the relational contract (generators with external readings)."""
    lock = open(os.path.join(REPO, 'Cargo.lock')).read()
    m = re.search(r'name = "rand_core"\nversion = "([^"]+)"', lock)
    if not m:
        raise AnchorLost('rand_core not in Cargo.lock')
    ver = m.group(1)
    cands = glob.glob(os.path.expanduser('~/.cargo/registry/src/*/rand_core-%s/src/impls.rs' % ver))
    if not cands:
        raise AnchorLost('rand_core %s sources not found in the local registry' % ver)
    cr = Crate(open(cands[0]).read())
    unit.sources['rand_core-' + ver] = cands[0]
    inv = [
        C('rcrel.fill_bytes_via_next.inv.split', 'C05 C14 C16', 'final(dest)@ == pre + final(left)@'),
        C('rcrel.fill_bytes_via_next.inv.len', 'C05 C14 C16', 'pre.len() + left@.len() == n0 && pre.len() == 8 * ws.len()'),
        C('rcrel.fill_bytes_via_next.inv.chain', 'C05 C16', 'chain::<R>(ws, vs) && vs[0] == v0 && vs.last() == rng.v() && rng.wf()'),
        C('rcrel.fill_bytes_via_next.inv.words', 'C05 C16', 'forall |i: int| 0 <= i < ws.len() ==> pre.subrange(8 * i, 8 * i + 8) == le64(#[trigger] ws[i])'),
    ]
    f2 = Fn('rand_core::impls::fill_bytes_via_next',
            sig_rewrites=[(r'<R: RngCore \+ \?Sized>', '<R: Next32 + Next64>')],
            requires=[C('rcrel.fill_bytes_via_next.wf', '', 'old(rng).wf()')],
            ensures=[C('rcrel.fill_bytes_via_next.rel', 'C05 C16', 'fill_rel::<R>(old(rng).v(), final(dest)@, final(rng).v())'),
                     C('rcrel.fill_bytes_via_next.wf_kept', 'C05 C14', 'final(rng).wf() && final(dest)@.len() == old(dest)@.len()')],
            loops={0: Loop(invariants=inv, decreases='left.len()')},
            inserts=[after(lit('let mut left = dest;'),
                           'let ghost v0 = rng.v(); let ghost n0 = old(dest)@.len(); let ghost mut pre: Seq<u8> = Seq::empty();\n'
                           'let ghost mut ws: Seq<u64> = Seq::empty(); let ghost mut vs: Seq<R::V> = seq![rng.v()];'),
                     before(lit('let (l, r) = { left }.split_at_mut(8);'), 'let ghost vb = rng.v();'),
                     after(lit('l.copy_from_slice(&chunk);'),
                           'proof {\n'
                           '  let w = choose |w: u64| R::r64(vb, w, rng.v()) && chunk@ == le64(w);\n'
                           '  let ws2 = ws.push(w); let vs2 = vs.push(rng.v()); let pre2 = pre + chunk@;\n'
                           '  assert forall |i: int| 0 <= i < ws2.len() implies R::r64(vs2[i], #[trigger] ws2[i], vs2[i + 1]) by { if i < ws.len() { assert(ws2[i] == ws[i]); } }\n'
                           '  assert forall |i: int| 0 <= i < ws2.len() implies pre2.subrange(8 * i, 8 * i + 8) == le64(#[trigger] ws2[i]) by {\n'
                           '    if i < ws.len() { assert(pre2.subrange(8 * i, 8 * i + 8) =~= pre.subrange(8 * i, 8 * i + 8)); assert(ws2[i] == ws[i]); }\n'
                           '    else { assert(pre2.subrange(8 * i, 8 * i + 8) =~= chunk@); } }\n'
                           '  ws = ws2; vs = vs2; pre = pre2;\n'
                           '}'),
                     after(lit('let n = left.len();'), 'let ghost vt = rng.v(); let ghost tb0 = left@;'),
                     Insert('end', None, 'proof {\n'
                            '  assert(ws.len() == n0 / 8) by { assert(n0 == 8 * ws.len() + n && n < 8); }\n'
                            '  assert(final(dest)@.subrange(8 * ws.len() as int, n0 as int) =~= final(left)@);\n'
                            '  assert forall |i: int| 0 <= i < ws.len() implies final(dest)@.subrange(8 * i, 8 * i + 8) == le64(#[trigger] ws[i]) by {\n'
                            '     assert(final(dest)@.subrange(8 * i, 8 * i + 8) =~= pre.subrange(8 * i, 8 * i + 8)); }\n'
                            '  assert(tail_rel::<R>(vt, final(left)@, rng.v()));\n'
                            '  assert(chain::<R>(ws, vs));\n'
                            '}')],
            builtin_props='C14 C18')
    it = cr.get('fill_bytes_via_next')
    s = dialect.apply(cr.src(it, with_attrs=True), unit.log).strip()
    f2.path = 'rand_core::impls::fill_bytes_via_next'
    unit.extracted[f2.path] = s
    unit.contracts[f2.path] = f2
    return weave_fn(s, f2)
