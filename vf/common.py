"""Helpers shared by the unit builders."""
import glob
import os
import re

from .unit import REPO
from .rs import Crate, AnchorLost
from .weave import Fn, C, Loop, after, lit, weave_fn
from . import dialect

SHIMS = os.path.join(os.path.dirname(os.path.dirname(os.path.abspath(__file__))), 'contracts', 'shims')

PREAMBLE = '''use vstd::prelude::*;
use crate::shims::*;
use crate::rand_core::*;
use crate::rand_core::le::*;
use crate::spec::*;
'''


def rand_core_impls_text(unit):
    """rand_core's real `next_u64_via_u32` / `fill_bytes_via_next` from the registry copy named by Cargo.lock,
    woven with the generic contracts (verified once, for all generators and all n)."""
    lock = open(os.path.join(REPO, 'Cargo.lock')).read()
    m = re.search(r'name = "rand_core"\nversion = "([^"]+)"', lock)
    if not m:
        raise AnchorLost('rand_core not in Cargo.lock')
    ver = m.group(1)
    cands = glob.glob(os.path.expanduser('~/.cargo/registry/src/*/rand_core-%s/src/impls.rs' % ver))
    if not cands:
        raise AnchorLost('rand_core %s sources not found in the local registry' % ver)
    cr = Crate(open(cands[0]).read())
    unit.sources['rand_core-' + ver] = cands[0]
    out = []
    f1 = Fn('rand_core::impls::next_u64_via_u32', ret='res',
            sig_rewrites=[(r'<R: RngCore \+ \?Sized>', '<R: Next32>')],
            ensures=[C('rc.next_u64_via_u32.value', 'C05', 'res == via_u32::<R>(old(rng).v()).0'),
                     C('rc.next_u64_via_u32.state', 'C05', 'final(rng).v() == via_u32::<R>(old(rng).v()).1')],
            builtin_props='C14')
    f2 = Fn('rand_core::impls::fill_bytes_via_next',
            sig_rewrites=[(r'<R: RngCore \+ \?Sized>', '<R: Next32 + Next64>')],
            ensures=[C('rc.fill_bytes_via_next.bytes', 'C05', 'final(dest)@ == fill_via_next::<R>(old(rng).v(), old(dest)@.len()).0'),
                     C('rc.fill_bytes_via_next.state', 'C05', 'final(rng).v() == fill_via_next::<R>(old(rng).v(), old(dest)@.len()).1')],
            loops={0: Loop(invariants=[
                C('rc.fill_bytes_via_next.inv.split', 'C05 C14', 'final(dest)@ == pre + final(left)@'),
                C('rc.fill_bytes_via_next.inv.len', 'C05 C14', 'pre.len() + left@.len() == n0'),
                C('rc.fill_bytes_via_next.inv.bytes', 'C05', 'fill_via_next::<R>(r0, n0).0 == pre + fill_via_next::<R>(rng.v(), left@.len()).0'),
                C('rc.fill_bytes_via_next.inv.state', 'C05', 'fill_via_next::<R>(r0, n0).1 == fill_via_next::<R>(rng.v(), left@.len()).1'),
            ], decreases='left.len()')},
            inserts=[after(lit('let mut left = dest;'),
                           'let ghost r0 = rng.v(); let ghost n0 = old(dest)@.len(); let ghost mut pre: Seq<u8> = Seq::empty();'),
                     after(lit('l.copy_from_slice(&chunk);'), 'proof { pre = pre + chunk@; }')],
            builtin_props='C14')
    for name, fc in (('next_u64_via_u32', f1), ('fill_bytes_via_next', f2)):
        it = cr.get(name)
        s = dialect.apply(cr.src(it, with_attrs=True), unit.log).strip()
        from vf.weave import weave_fn
        fc.path = 'rand_core::impls::' + name
        unit.extracted[fc.path] = s
        unit.contracts[fc.path] = fc
        out.append(weave_fn(s, fc))
    return '\n'.join(out)


