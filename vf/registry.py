"""Which parts decide which property, per tier.  A part is ('verus', unit) or ('kani', set) or ('static', name)."""
from . import parts

TB_COMMON = [
    'T1 rustc: -Zunpretty=expanded prints the code that is compiled (hygiene guarded); the compiler implements the semantics Verus/Kani assume',
    'T2 Verus 0.2026.09.13 + bundled Z3, including by(bit_vector)/by(compute); vstd specifications of wrapping_*, shifts, split_at_mut, copy_from_slice, slices, arrays',
    'T3 assume_specification for u32/u64::rotate_left/right (shift-or formula)',
    'T6 spec functions are a faithful rendering of the published reference algorithms',
]
TB_RC = [
    'T5 stand-in rand_core traits repeat rand_core 0.9.5 signatures; assumed contracts: le::read_u32_into/read_u64_into (LE words), SeedableRng::from_rng default (one fill_bytes of seed length, then from_seed)',
    'T4 shims: to_le_bytes (vstd byte spec), all_zero (D11)',
]

PROPS = {}


# which Verus units a fallback part can stand in for (a fallback part is skipped when none of them is undecided)
FALLBACK_FOR = {('kani', 'api'): {'xoshiro', 'xorshift'}, ('diff', 'jitter'): {'jitter'}, ('kani', 'hc128_incrate'): {'hc128'},
                ('kani', 'isaac_incrate'): {'isaac'}, ('kani', 'isaac64_incrate'): {'isaac64'}, ('diff', 'isaac'): {'isaac', 'isaac64'},
                ('diff', 'stream'): {'xoshiro', 'xorshift', 'hc128', 'isaac', 'isaac64'},
                ('diff', 'clone'): {'xoshiro', 'xorshift', 'hc128', 'isaac', 'isaac64'}}


def run_part(part, seed=0, tier='quick', threads=16, prop=None, stop_on_failure=False, only=None):
    kind = part[0]
    if kind == 'verus':
        return parts.verus_part(part[1], threads=threads)
    if kind == 'kani':
        from . import kani
        return kani.kani_part(part[1], tier=tier, prop=prop, stop_on_failure=stop_on_failure, only=only)
    if kind == 'sweep':
        from . import cex
        return cex.isaac_serde_sweep_part()
    if kind == 'diff':
        from . import cex
        if part[1] in ('isaac', 'stream', 'clone'):
            return cex.native_part(part[1], prop)
        return cex.jitter_diff_part(prop, seed=seed)
    if kind == 'static':
        from . import static
        return static.run(part[1])
    raise ValueError(part)


def reg(pid, quick, thorough=None, **kw):
    PROPS[pid] = dict(quick=quick, thorough=thorough or quick, **kw)


reg('C01', [('verus', 'xoshiro')], thorough=[('verus', 'xoshiro'), ('kani', 'api')], fallback=[('kani', 'api')],
    level='proof', trusted_base=TB_COMMON + TB_RC,
    explanation='every native-width next_* of the 15 generators carries `r == <ref>_out(old state)` and `final state == <ref>_next(old state)`; from_seed carries the LE-word postcondition',
    assumptions=['stream positions follow from the one-step contracts by induction (iter32/iter64)'])
reg('C06', [('verus', 'xoshiro'), ('static', 'jumpcheck')],
    level='proof', trusted_base=TB_COMMON + ['verus --compile / rustc: the Verus-verified jump-polynomial checker is executed natively (ghost code erased)',
                                             'tools/jumppoly.py only proposes the polynomials (Berlekamp-Massey + repeated squaring); they are not trusted: the verified checker confirms each one'],
    explanation='(1) for all states jump()/long_jump() == J_ref(T) applied to the old state (both loop invariants, 24 functions); (2) J_ref(T) == T^(2^k) on every state, for the five engines and both exponents: decided by a Verus-verified executable checker (column matrix of T squared k times, each squaring proved to double the exponent; columns of J_ref(T); two linear maps that agree on the basis agree everywhere); (3) the engines are GF(2)-linear, hence jump, long_jump and stepping commute',
    assumptions=[])
reg('C04', [('verus', 'xorshift')], thorough=[('verus', 'xorshift'), ('kani', 'api')], fallback=[('kani', 'api')],
    level='proof', trusted_base=TB_COMMON + TB_RC + ['T4 Wrapping shim: local stand-in for core::num::Wrapping with verified operator impls (same operator semantics assumed; Kani cross-check)'],
    explanation='next_u32 carries `(x,y,z,w)\' == xor128_next(x,y,z,w)` and `r == new w`; from_seed carries the LE-word / 0x0BAD5EED postconditions',
    assumptions=['stream positions follow from the one-step contract by induction'])
TB_JIT = [
    'T10 the timer F: Fn() -> u64 is total (timer.requires(()) is carried as the type invariant); its results are unconstrained u64s',
    'T8 black_box (unsafe read_volatile) is the identity',
    'T4 shims: leading_zeros (D14), to_le_bytes; T3 i32/i64::unsigned_abs',
    'T5 relational stand-in for rand_core::RngCore; rand_core fill_bytes_via_next verified against it',
]
reg('C12', [('verus', 'jitter')], thorough=[('verus', 'jitter'), ('kani', 'jitter_incrate'), ('diff', 'jitter')], fallback=[('diff', 'jitter')], level='proof', trusted_base=TB_COMMON + TB_JIT,
    explanation='every function of the collector carries the Jitterentropy step as postcondition with the timer readings existentially quantified (deterministic function of the readings); gen_entropy == collect_ok',
    assumptions=['number of timer readings: the postconditions quantify exactly the readings that can influence the state; the count itself is decided by Kani harnesses on the real code (thorough tier)'])
reg('C13', [('verus', 'jitter')], thorough=[('verus', 'jitter'), ('diff', 'jitter')], fallback=[('diff', 'jitter')], level='proof', trusted_base=TB_COMMON + TB_JIT,
    explanation='test_timer carries `exists log. tt_post(log, r)`: Ok(r) only if no failure condition holds on the probe log, 1<=r<=128 and r*bitlen(mean)>=128; Err(e) only if cond(e) holds')
reg('C14', [('verus', 'xoshiro'), ('verus', 'xorshift'), ('verus', 'jitter'), ('verus', 'hc128'), ('verus', 'isaac'), ('verus', 'isaac64')], fallback=[('diff', 'jitter'), ('diff', 'stream'), ('diff', 'clone'), ('kani', 'api')], level='proof', trusted_base=TB_COMMON + TB_RC + TB_JIT,
    explanation='Verus built-in obligations (overflow, index, shift, division, callee preconditions incl. panics) in every function under contract; public functions require only the type invariant',
    assumptions=['Debug/serde formatting are not claimed panic-free'])
reg('C16', [('verus', 'jitter')], thorough=[('verus', 'jitter'), ('diff', 'jitter')], fallback=[('diff', 'jitter')], level='proof', trusted_base=TB_COMMON + TB_JIT,
    explanation='next_u32/next_u64/fill_bytes/clone contracts over the pending-half flag; fill_bytes via the relational contract of rand_core fill_bytes_via_next')
reg('C15', [('verus', 'jitter')], level='proof', trusted_base=TB_COMMON + TB_JIT + ['the 64 columns of the inverse of stir\'s linear part are produced by tools/stir_inverse.py on every run; the verifier re-evaluates them (64 by(compute) evaluations), so they are not trusted'],
    explanation='lemmas over the spec functions the code is proved equal to: lfsr64 bijective in the pool (explicit inverse), injective in the time value (bit-peeling induction), rotl 7 a permutation, stir injective (affine-linearity + explicit inverse on a basis); code-level obligations jitter.lfsr.*, jitter.stir_pool.*, jitter.measure_jitter.spec tie them to the real functions',
    assumptions=['one-to-one on the finite set of 2^64 pool values implies onto (pigeonhole) for the stir step; for the LFSR fold the inverse is explicit'])

reg('C02', [('static', 'forwarding'), ('verus', 'hc128')], thorough=[('static', 'forwarding'), ('verus', 'hc128'), ('kani', 'hc128_incrate'), ('kani', 'blockrng')], fallback=[('kani', 'hc128_incrate')], level='proof', trusted_base=TB_COMMON + ['T5 assumed: le::read_u32_into (LE words); BlockRng word delivery is dependency code (Kani, thorough)'],
    explanation='step_p/step_q against Wu\'s update/output functions, generate == 16 keystream steps at the current counter (all 32 unrolled calls, both phases, counter wrap), sixteen_steps/init == key/IV expansion W followed by 1024 initialisation steps, from_seed == init of the LE words; bridge lemma code association order == Wu\'s g1/g2/h1/h2',
    assumptions=['Hc128Rng is a newtype over rand_core::block::BlockRng: its RngCore/SeedableRng methods are the verbatim forwarding calls (static forwarding obligations, every run); BlockRng hands the words of each 16-word block out in order (Kani harnesses on the real rand_core: next_u32/next_u64 complete in the quick tier, fill_bytes bounded in the thorough tier)'])

reg('C03', [('static', 'forwarding'), ('verus', 'isaac'), ('verus', 'isaac64')], thorough=[('static', 'forwarding'), ('verus', 'isaac'), ('verus', 'isaac64'), ('kani', 'isaac_incrate'), ('kani', 'isaac64_incrate'), ('kani', 'blockrng'), ('diff', 'isaac')],
    fallback=[('diff', 'isaac'), ('kani', 'isaac_incrate'), ('kani', 'isaac64_incrate')], level='proof',
    trusted_base=TB_COMMON + ['T4 Wrapping shim: local stand-in for core::num::Wrapping with verified operator impls (same operator semantics assumed; Kani cross-check)'],
    explanation='ind/rngstep/generate against Jenkins\' isaac()/isaac64() (all eight unrolled rngstep call sites, both halves, results in reference hand-out order), mix/init against randinit (golden-ratio premix re-derived by compute), seed_from_u64 key layout and single pass',
    assumptions=['from_seed (iterator zip) and from_rng/try_from_rng (unsafe raw-parts) are decided by Kani harnesses with a recording init stub (thorough tier)',
                 'IsaacRng/Isaac64Rng are newtypes over rand_core BlockRng/BlockRng64: verbatim forwarding (static forwarding obligations, every run); BlockRng/BlockRng64 word delivery decided by Kani on the real rand_core'])

TB_KANI = ['T9 Kani 0.68 / CBMC 6.11: every harness runs with unwinding assertions; kani::assume only bounds an index or excludes a documented precondition']
ALL_UNITS = [('verus', u) for u in ('xoshiro', 'xorshift', 'jitter', 'hc128', 'isaac', 'isaac64')]

reg('C05', [('static', 'forwarding'), ('verus', 'xoshiro'), ('verus', 'xorshift'), ('verus', 'jitter'), ('verus', 'isaac'), ('verus', 'isaac64'), ('kani', 'blockrng'), ('diff', 'stream')],
    thorough=[('static', 'forwarding'), ('verus', 'xoshiro'), ('verus', 'xorshift'), ('verus', 'jitter'), ('verus', 'isaac'), ('verus', 'isaac64'), ('kani', 'blockrng'), ('kani', 'api'), ('diff', 'stream')], fallback=[('diff', 'stream'), ('kani', 'api')],
    level='proof', trusted_base=TB_COMMON + TB_RC + TB_JIT + TB_KANI,
    explanation='trait-level stream-projection contracts (s32/s64/sfill) on every generator; rand_core next_u64_via_u32 / fill_bytes_via_next verified once, generically, for all n (deterministic and relational flavour); BlockRng/BlockRng64 next_u32/next_u64 complete on the real rand_core (dummy core with arbitrary blocks); BlockRng fill_bytes bounded (thorough tier)',
    assumptions=['BlockRng/BlockRng64::fill_bytes(n) is a bounded stand-in (2-word blocks, n <= 2 blocks + tail), never counted as proved; parametricity in the block length is argued',
                 'history quantifier: by induction over the per-call contracts (forward-only shape of the recursion)'])
reg('C08', [('verus', 'xoshiro'), ('verus', 'xorshift'), ('kani', 'std_shims'), ('kani', 'rc_glue'), ('kani', 'seeding')],
    thorough=[('verus', 'xoshiro'), ('verus', 'xorshift'), ('kani', 'std_shims'), ('kani', 'rc_glue'), ('kani', 'api')], fallback=[('kani', 'api')],
    level='proof', trusted_base=TB_COMMON + TB_RC + TB_KANI,
    explanation='from_seed: zero seed remapped exactly as documented, every other seed verbatim; seed_from_u64 == from_seed of the SplitMix64 expansion; XorShift from_rng/try_from_rng redraw loop; lemma: no seeding path yields the zero state',
    assumptions=['D11 (all-zero test) and rand_core default from_rng are cross-checked by Kani on the real code'])
reg('C09', [('static', 'forwarding'), ('verus', 'xoshiro'), ('verus', 'xorshift'), ('verus', 'isaac'), ('verus', 'isaac64'), ('verus', 'hc128'),
            ('kani', 'rc_glue'), ('kani', 'seeding'), ('kani', 'hc128_incrate'), ('kani', 'isaac_incrate'), ('kani', 'isaac64_incrate')],
    level='proof', trusted_base=TB_COMMON + TB_RC + TB_KANI,
    explanation='seed_from_u64 == from_seed(documented expansion) (Verus for the xoshiro family and ISAAC; Kani against a PCG32 twin for XorShiftRng and Hc128Rng); from_rng/try_from_rng: exactly one seed worth of bytes, same generator, source error returned unchanged (Kani with recording sources; XorShift redraw loop in Verus)')
reg('C10', [('static', 'forwarding')] + ALL_UNITS + [('diff', 'clone')], thorough=[('static', 'forwarding')] + ALL_UNITS + [('kani', 'hc128_incrate'), ('diff', 'clone')], fallback=[('diff', 'clone'), ('kani', 'hc128_incrate')], level='proof', trusted_base=TB_COMMON + TB_RC,
    explanation='clone copies every field, == holds iff all state is equal (derived and hand-written impls, incl. Hc128Rng core+index); every operation under contract determines result and final state from the old state (the state clauses), so equal states have identical futures',
    assumptions=['IsaacRng/Isaac64Rng/Hc128Rng derive Clone over rand_core BlockRng (dependency derive output): the derived body is pinned by a forwarding obligation; IsaacRng/Isaac64Rng have no PartialEq',
                 'diff:clone (clone and clone_from at 20 x 20 read positions per generator) is an exploration run, listed as bounded and never counted as proved'])
reg('C11', [('kani', 'serde_rt'), ('sweep', 'isaac_serde')], thorough=[('kani', 'serde_rt'), ('sweep', 'isaac_serde'), ('kani', 'isaac_incrate'), ('kani', 'isaac64_incrate')], level='proof', trusted_base=TB_KANI + ['serde derive output and bincode are symbolically executed as ordinary code'],
    explanation='bincode round trip through the real derive output for an arbitrary state of each of the 16 small generators: restored == original (full-state equality, C10) and the original is untouched',
    assumptions=['IsaacRng / Isaac64Rng: BOUNDED stand-in (never counted as proved): native sweep over every snapshot point (all buffer indices, pending half or not) for 3 seeds on the real crates; the core with arbitrary contents through derive output + isaac_array_serde is a Kani harness in the thorough tier (token serde format kani/incrate/tokfmt.rs; bincode and the whole-generator harness exceed CBMC: 14 GB / 50 min)'])
reg('C17', [('static', 'debug_frame'), ('kani', 'debug'), ('kani', 'hc128_incrate'), ('kani', 'isaac_incrate'), ('kani', 'isaac64_incrate'), ('kani', 'jitter_incrate')], level='proof', trusted_base=TB_KANI,
    explanation='{:?} and {:#?} of an arbitrary state written into a fixed sink equal the expected literal byte for byte (formatting loops are bounded by the literal length)')
reg('C18', ALL_UNITS + [('static', 'cfg_invariance')], fallback=[('diff', 'jitter'), ('diff', 'stream'), ('diff', 'clone'), ('kani', 'api')], level='proof', trusted_base=TB_COMMON + ['optimiser/code generator correctness (T1): no source-level method can do without it'],
    explanation='(1) no overflow/debug check can fire in any function under contract (Verus built-in obligations), so dev and release execute the same arithmetic; (2) every function has identical expanded text under {debug assertions on, off} x {serde off, on}')
reg('C19', [('static', 'shared_state_scan'), ('static', 'send_sync')], level='other', trusted_base=['rustc auto-trait checking', 'Rust aliasing rules for &mut self'],
    explanation='frame obligations: every function of the expanded crates mentions no static / interior-mutable / ambient state (JITTER_ROUNDS only in JitterRng::new); Send + Sync for all 23 generator/core types discharged by rustc; interleavings are not explored: with exclusive &mut self and an empty global frame there is nothing for a schedule to influence')
