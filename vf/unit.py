"""A verification unit: one woven Verus file built from the expanded crate,
plus the runner/classifier for the installed Verus."""
import hashlib
import json
import os
import re
import subprocess
import time

from . import dialect
from .rs import Crate, AnchorLost, mask
from .weave import Fn, weave_fn, marker_map, Clause

WORK = os.environ.get('RNGS_VERIF_WORK', '/verif/.work')
REPO = os.environ.get('RNGS_REPO', '/repo')


def sh(cmd, **kw):
    return subprocess.run(cmd, shell=isinstance(cmd, str), stdout=subprocess.PIPE, stderr=subprocess.PIPE, text=True, **kw)


class Undecided(Exception):
    pass


_EXPAND_CACHE = {}


def expand(crate, features=(), debug_assertions=None, lib=True, manifest_dir=None):
    """rustc's own macro expansion of <crate> in /repo's current working tree.
    Redone on every run (cargo's freshness check makes it ~1 s when warm)."""
    key = (crate, tuple(features), debug_assertions)
    if key in _EXPAND_CACHE:
        return _EXPAND_CACHE[key]
    tdir = os.path.join(WORK, 'expand-target')
    os.makedirs(tdir, exist_ok=True)
    # parts of one check run in parallel threads, and several of them expand the same crate: removing cargo's fingerprint while
    # another cargo writes it makes that one fail ("could not parse/generate dep info") - serialise (threads and processes)
    import fcntl
    with open(os.path.join(tdir, '.expand.lock'), 'w') as lk:
        fcntl.flock(lk, fcntl.LOCK_EX)
        try:
            if key in _EXPAND_CACHE:
                return _EXPAND_CACHE[key]
            return _expand_locked(crate, features, debug_assertions, key, tdir)
        finally:
            fcntl.flock(lk, fcntl.LOCK_UN)


def _expand_locked(crate, features, debug_assertions, key, tdir):
    cmd = ['cargo', '+nightly', 'rustc', '-p', crate, '--lib', '--offline']
    if features:
        cmd += ['--features', ','.join(features)]
    cmd += ['--', '-Zunpretty=expanded']
    if debug_assertions is not None:
        cmd += ['-C', 'debug-assertions=%s' % ('yes' if debug_assertions else 'no')]
    env = dict(os.environ, CARGO_TARGET_DIR=tdir, CARGO_NET_OFFLINE='true')
    env.pop('RUSTFLAGS', None)
    # cargo caches a successful unit; force re-emission by touching nothing – rustc
    # is re-run whenever a source file changed; if nothing changed cargo prints nothing,
    # so keep our own copy keyed by the source hash.
    h = hashlib.sha256()
    root = os.path.join(REPO, crate)
    for dp, dn, fn in sorted(os.walk(root)):
        dn[:] = sorted(d for d in dn if d not in ('target',))
        for f in sorted(fn):
            if f.endswith('.rs') or f == 'Cargo.toml':
                p = os.path.join(dp, f)
                h.update(p.encode())
                h.update(open(p, 'rb').read())
    h.update(repr(key).encode())
    lock = os.path.join(REPO, 'Cargo.lock')
    if os.path.exists(lock):
        h.update(open(lock, 'rb').read())
    # always re-run rustc: remove cargo's fingerprint for this crate so that the
    # text really comes from the current tree on every run
    fp = os.path.join(tdir, 'debug', '.fingerprint')
    if os.path.isdir(fp):
        for d in os.listdir(fp):
            if d.startswith(crate.replace('_', '-') + '-') or d.startswith(crate + '-'):
                subprocess.run(['rm', '-rf', os.path.join(fp, d)])
    r = subprocess.run(cmd, cwd=REPO, env=env, stdout=subprocess.PIPE, stderr=subprocess.PIPE, text=True)
    if r.returncode != 0 or 'mod ' not in r.stdout and 'fn ' not in r.stdout:
        raise Undecided('expansion of %s failed:\n%s' % (crate, r.stderr[-3000:]))
    res = (r.stdout, h.hexdigest())
    _EXPAND_CACHE[key] = res
    return res


class Unit:
    def __init__(self, name):
        self.name = name
        self.chunks = []
        self.contracts = {}      # path -> Fn
        self.extracted = {}      # path -> post-dialect text of the function
        self.lemmas = {}         # name -> props
        self.log = dialect.Log()
        self.not_under_contract = []
        self.sources = {}        # crate -> sha of sources
        self.assumptions = []
        self.census = {}         # crate -> sorted list of all fn paths in the expansion

    # ---- assembling -------------------------------------------------
    def raw(self, text):
        self.chunks.append(text)

    def crate(self, name, **kw):
        text, sha = expand(name, **kw)
        self.sources[name] = sha
        c = Crate(text)
        # census of every function of the expanded crate (methods of derived and hand-written impls included): a function that is
        # not in the committed census is new code that no contract covers (e.g. an override of a defaulted trait method)
        self.census[name] = sorted(p for p in c.order if c.index[p].kind == 'fn')
        return c

    def struct(self, crate, path, derive=''):
        it = crate.get(path)
        s = dialect.d1_attrs(crate.src(it, with_attrs=True), self.log)
        s = dialect.pubify_struct(s)
        self.log.hit('D10')
        self.chunks.append(derive + s)

    def item(self, crate, path, rewrite=()):
        it = crate.get(path)
        s = dialect.d1_attrs(crate.src(it, with_attrs=True), self.log)
        s = dialect.d3_paths(s, self.log)
        s = dialect.d5_wrapping(s, self.log)
        for a, b in rewrite:
            s = re.sub(a, b, s)
        s = re.sub(r'^\s*pub\(crate\)\s+', 'pub ', s)
        self.chunks.append(s)

    def fn_text(self, crate, path, fc):
        it = crate.get(path)
        s = crate.src(it, with_attrs=True)
        s = dialect.apply(s, self.log)
        for rule in fc.dialect:
            s = rule(s, self.log)
        s = s.strip()
        # D10: normalise visibility
        s = re.sub(r'^pub(\([^)]*\))?\s+', '', s)
        return s

    def fn(self, crate, path, fc=None, pub=True, emit=True):
        fc = fc or Fn(path)
        fc.path = path
        s = self.fn_text(crate, path, fc)
        # nested fns with their own contracts are woven first (inside-out)
        nested = [p for p in crate.order if p.startswith(path + '::') and crate.index[p].kind == 'fn']
        for np in nested:
            nfc = self.pending_nested.get(np) if hasattr(self, 'pending_nested') else None
            if nfc is None:
                continue
            nit = crate.index[np]
            ntext = dialect.apply(crate.src(nit), self.log)
            if ntext not in s:
                raise AnchorLost('nested fn text not found: ' + np)
            nfc.path = np
            woven = weave_fn(ntext, nfc)
            s = s.replace(ntext, woven, 1)
            self.contracts[np] = nfc
            self.extracted[np] = ntext
        self.extracted[path] = s
        self.contracts[path] = fc
        w = weave_fn(s, fc)
        if pub:
            w = w.replace('\n', '\npub ', 1) if False else w
        if emit:
            self.chunks.append(w)
        return w

    def nested(self, path, fc):
        if not hasattr(self, 'pending_nested'):
            self.pending_nested = {}
        self.pending_nested[path] = fc

    def impl(self, crate, impl_path, header=None, fns=(), contracts=None, keep=(), extra=''):
        """Emit an impl block: `header` (default: the original header) and the
        selected member functions woven with their contracts.  `keep`: member
        items (types, consts) copied verbatim."""
        it = crate.get(impl_path)
        hdr = header if header is not None else dialect.d1_attrs(it.header, self.log)
        out = [hdr.strip() + ' {']
        for k in keep:
            m = crate.get(impl_path + '::' + k)
            out.append(dialect.d1_attrs(crate.src(m, with_attrs=True), self.log))
        if extra:
            out.append(extra)
        contracts = contracts or {}
        for f in fns:
            p = impl_path + '::' + f
            fc = contracts.get(f) or Fn(p)
            w = self.fn(crate, p, fc, emit=False)
            out.append(w)
        out.append('}')
        self.chunks.append('\n'.join(out))

    def lemma(self, name, props, text):
        self.lemmas[name] = props.split() if isinstance(props, str) else list(props)
        self.chunks.append('/*@F<lemma:%s*/\n%s\n/*@F>*/' % (name, text.strip()))

    def lemma_file(self, text, props, prefix=''):
        """Emit a file of spec-level lemmas; every `proof fn` becomes one named obligation tagged with `props`."""
        msk = mask(text)
        out = []
        pos = 0
        for m in re.finditer(r'(?m)^[ \t]*(pub\s+)?proof\s+fn\s+([A-Za-z_][A-Za-z0-9_]*)', msk):
            name = m.group(2)
            k = m.end()
            from .rs import match_close
            while k < len(msk) and msk[k] != '{':
                if msk[k] in '([':
                    k = match_close(msk, k)
                k += 1
            end = match_close(msk, k) + 1
            out.append(text[pos:m.start()])
            out.append('/*@F<lemma:%s*/\n%s\n/*@F>*/' % (prefix + name, text[m.start():end]))
            self.lemmas[prefix + name] = props.split() if isinstance(props, str) else list(props)
            pos = end
        out.append(text[pos:])
        self.chunks.append(''.join(out))

    def skip(self, path, why):
        self.not_under_contract.append('%s (%s)' % (path, why))

    def text(self):
        return ('#![allow(unused_imports, unused_variables, unused_mut, dead_code, unused_parens, non_snake_case, unused_assignments, redundant_semicolons, non_upper_case_globals, unreachable_code)]\n'
                'use vstd::prelude::*;\nverus! {\n' + '\n\n'.join(self.chunks) + '\n} // verus!\nfn main() {}\n')

    # ---- obligations ------------------------------------------------
    def obligations(self):
        """id -> dict(fn, kind, props).  One 'builtin' obligation per exec
        function stands for all of Verus' built-in checks in it (overflow, index,
        shift, division, callee preconditions incl. vpanic, termination)."""
        obs = {}
        for path, fc in self.contracts.items():
            for c in fc.clauses():
                if c.id in obs:
                    raise ValueError('duplicate clause id ' + c.id)
                obs[c.id] = dict(fn=path, kind='clause', props=c.props, text=c.text[:160])
            obs[path + '#builtin'] = dict(fn=path, kind='builtin', props=fc.builtin_props,
                                          text='overflow/index/shift/division/callee-precondition/panic/termination checks in ' + path)
            if fc.trait_props:
                obs[path + '#trait'] = dict(fn=path, kind='trait', props=fc.trait_props,
                                            text='trait-level contract of the stand-in rand_core trait (stream projection / seeding spec) for ' + path)
        for name, props in self.lemmas.items():
            obs['lemma:' + name] = dict(fn='lemma:' + name, kind='lemma', props=props, text='spec-level lemma ' + name)
        return obs


VERIF_MSGS = [
    ('postcondition not satisfied', 'postcondition'),
    ('invariant not satisfied', 'invariant'),
    ('loop invariant', 'invariant'),
    ('assertion failed', 'assert'),
    ('precondition not satisfied', 'precondition'),
    ('possible arithmetic underflow/overflow', 'overflow'),
    ('possible division by zero', 'division'),
    ('possible bit shift underflow/overflow', 'shift'),
    ('index out of bounds', 'index'),
    ('decreases not satisfied', 'termination'),
    ('loop ensures not satisfied', 'invariant'),
    ('assert_by_compute', 'assert'),
    ('failed to simplify', 'assert'),
    ('bit_vector', 'assert'),
    ('nonlinear', 'assert'),
    ('recommendation not met', 'recommend'),
    ('could not prove termination', 'termination'),
    ('call to a function may not terminate', 'termination'),
    ('cannot show invariant holds', 'invariant'),
    ('cannot show loop', 'invariant'),
    ('might not be allowed', 'other'),
]
UNDECIDED_MSGS = ['rlimit', 'resource limit', 'timed out', 'timeout', 'unknown']


class VerusResult:
    def __init__(self):
        self.ok_fns = {}        # verus fn name -> dict(time_us, rlimit, success)
        self.failed = {}        # obligation id -> [detail]
        self.undecided = []     # reasons
        self.compile_errors = []
        self.wall_s = 0.0
        self.smt_ms = 0
        self.total_ms = 0
        self.cmd = ''
        self.version = ''
        self.raw_err = ''
        self.file = ''
        self.sha = ''


def run_verus(unit, rlimit=200, threads=8, tag='', extra_args=(), timeout=3000):
    text = unit.text()
    d = os.path.join(WORK, 'woven')
    os.makedirs(d, exist_ok=True)
    path = os.path.join(d, unit.name + tag + '.rs')
    with open(path, 'w') as f:
        f.write(text)
    res = VerusResult()
    res.file = path
    res.sha = hashlib.sha256(text.encode()).hexdigest()
    cmd = ['verus', path, '--output-json', '--error-format=json', '--time-expanded', '--rlimit', str(rlimit),
           '--multiple-errors', '40', '--num-threads', str(threads), '--triggers-mode', 'silent'] + list(extra_args)
    res.cmd = ' '.join(cmd)
    t0 = time.time()
    try:
        r = subprocess.run(cmd, stdout=subprocess.PIPE, stderr=subprocess.PIPE, text=True, cwd=d, timeout=timeout)
    except subprocess.TimeoutExpired:
        res.undecided.append('verus timed out after %ds' % timeout)
        res.wall_s = time.time() - t0
        return res
    res.wall_s = time.time() - t0
    res.raw_err = r.stderr
    try:
        js = json.loads(r.stdout)
    except Exception:
        js = None
    clause_ranges, fn_ranges = marker_map(text)
    proof_ranges = list(marker_map.proofs)
    tb = text.encode()
    # verus spans are byte offsets; our file is ASCII in practice, but be exact
    if len(tb) != len(text):
        b2c = {}
        bo = 0
        for ci, ch in enumerate(text):
            b2c[bo] = ci
            bo += len(ch.encode())
        conv = lambda b: b2c.get(b, b)
    else:
        conv = lambda b: b

    def locate(off):
        best = None
        for s, e, ident in clause_ranges:
            if s <= off < e:
                if best is None or (e - s) < (best[1] - best[0]):
                    best = (s, e, ident)
        if best:
            return ('clause', best[2])
        bestf = None
        for s, e, ident in fn_ranges:
            if s <= off < e:
                if bestf is None or (e - s) < (bestf[1] - bestf[0]):
                    bestf = (s, e, ident)
        if bestf:
            return ('fn', bestf[2])
        return ('none', None)

    if js:
        res.version = js.get('verus', {}).get('version', '')
        tm = js.get('times-ms', {})
        res.total_ms = tm.get('total', 0)
        res.smt_ms = tm.get('smt', {}).get('total', 0) if isinstance(tm.get('smt'), dict) else 0
        for mod in (tm.get('smt', {}) or {}).get('smt-run-module-times', []) or []:
            for fb in mod.get('function-breakdown', []) or []:
                nm = fb['function']
                cur = res.ok_fns.get(nm)
                ent = dict(time_us=fb.get('time-micros', 0), rlimit=fb.get('rlimit', 0), success=fb.get('success', False), mode=fb.get('mode:', ''))
                if cur:
                    ent['time_us'] += cur['time_us']
                    ent['rlimit'] += cur['rlimit']
                    ent['success'] = ent['success'] and cur['success']
                res.ok_fns[nm] = ent
        res.summary = js.get('verification-results', {})
    else:
        res.summary = {}
    obs = unit.obligations()
    for line in r.stderr.splitlines():
        line = line.strip()
        if not line.startswith('{'):
            continue
        try:
            dg = json.loads(line)
        except Exception:
            continue
        if dg.get('level') not in ('error',):
            continue
        msg = dg.get('message', '')
        if msg.startswith('aborting due to'):
            continue
        low = msg.lower()
        kind = None
        for pat, k in VERIF_MSGS:
            if pat in low:
                kind = k
                break
        prim = [s for s in dg.get('spans', []) if s.get('is_primary')]
        allsp = dg.get('spans', [])
        if any(u in low for u in UNDECIDED_MSGS) and kind is None:
            where = locate(conv(prim[0]['byte_start']))[1] if prim else None
            res.undecided.append('%s (%s)' % (msg, where))
            continue
        if kind is None or dg.get('code'):
            res.compile_errors.append(dg.get('rendered', msg)[:1500])
            continue
        base = os.path.basename(path)
        ours = lambda sp: os.path.basename(sp.get('file_name', '')) == base
        detail = dict(kind=kind, message=msg, rendered=dg.get('rendered', '')[:2500])
        oid = 'unlocated'
        p0 = prim[0] if prim else None
        if p0 is not None and ours(p0):
            what, ident = locate(conv(p0['byte_start']))
        else:
            what, ident = ('foreign', None)
        secondary_fn = None
        for sp in allsp:
            if sp is p0 or not ours(sp):
                continue
            w2, id2 = locate(conv(sp['byte_start']))
            if w2 == 'fn' and secondary_fn is None:
                secondary_fn = id2
            if w2 == 'clause':
                detail.setdefault('other_clause', id2)
        if what == 'clause' and ident in obs:
            oid = ident
        elif what == 'clause' and ident.startswith('trait.') or what == 'foreign':
            # postcondition declared on a stand-in trait (or on a vstd trait such as PartialEq);
            # the implementing function is in a secondary span
            if secondary_fn:
                oid = secondary_fn + '#trait'
                detail['trait_clause'] = ident or 'vstd'
        elif what == 'fn':
            if ident.startswith('lemma:'):
                oid = ident
            elif kind in ('overflow', 'division', 'shift', 'index', 'precondition', 'termination') \
                    and not any(ps <= conv(p0['byte_start']) < pe for ps, pe, _ in proof_ranges):
                oid = ident + '#builtin'
            else:
                oid = ident + '#proof'
        res.failed.setdefault(oid, []).append(detail)
    if js is None and not res.compile_errors:
        res.compile_errors.append('verus produced no JSON; stderr tail:\n' + r.stderr[-2000:])
    if js and res.summary.get('encountered-vir-error'):
        if not res.compile_errors:
            res.compile_errors.append('verus reported a VIR error; stderr tail:\n' + r.stderr[-2000:])
    return res
