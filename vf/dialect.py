"""Dialect rules D1–D13 (DESIGN.md §3.2): fixed syntactic rewrites that bring
rustc's expanded text into the subset the installed Verus accepts.  Each rule
reports how often it fired.  None touches arithmetic, indices, constants or
call order; D7/D8 rewrite loop *headers* only.
"""
import re
from .rs import mask, match_close, AnchorLost


class Log:
    def __init__(self):
        self.counts = {}

    def hit(self, rule, n=1):
        if n:
            self.counts[rule] = self.counts.get(rule, 0) + n


def _sub(pat, rep, s, log, rule, flags=0):
    s2, n = re.subn(pat, rep, s, flags=flags)
    log.hit(rule, n)
    return s2


def d1_attrs(s, log):
    """D1: doc comments and attributes without semantics are dropped."""
    s = _sub(r'^[ \t]*///.*\n', '', s, log, 'D1', re.M)
    s = _sub(r'^[ \t]*//!.*\n', '', s, log, 'D1', re.M)
    s = _sub(r'#\[(inline(\([a-z]+\))?|automatically_derived|rustfmt::skip|allow\([^\]]*\)|coverage\([a-z]+\)|doc\s*\([^\]]*\)|doc\s*=[^\]]*|cfg_attr\([^\]]*\)|must_use)\]\s*', '', s, log, 'D1')
    return s


def d4_panic(s, log):
    """D4: panics become calls to vpanic(), declared `requires false`."""
    s = _sub(r'::core::panicking::panic\s*\(', 'crate::shims::vpanic(', s, log, 'D4')
    s = _sub(r'::core::panicking::panic_fmt\s*\(', 'crate::shims::vpanic_fmt(', s, log, 'D4')
    # rustc prints `assert!(c)` as `if !c { ::core::panicking::panic("…") }`
    return s


def d6_le_bytes(s, log):
    """D6: to_le_bytes / from_le_bytes go through shims with vstd byte specs."""
    s = _sub(r'\.to_le_bytes\(\)', '.to_le_bytes_v()', s, log, 'D6')
    s = _sub(r'\b(u32|u64)::from_le_bytes\(', r'crate::shims::\1_from_le_bytes_v(', s, log, 'D6')
    return s


def d7_map_range(s, log):
    """D7: `for i in (A..B).map(|i| i * K) {`  =>  `for i0 in A..B { let i = i0 * K;`"""
    pat = re.compile(r'for\s+([a-z_][a-z0-9_]*)\s+in\s+\(([^()]*?)\.\.([^()]*?)\)\.map\(\|([a-z_][a-z0-9_]*)\|\s*([^{}]*?)\)\s*\{')

    def rep(m):
        v, a, b, p, e = m.groups()
        if p != v:
            raise AnchorLost('D7: closure parameter differs from loop variable')
        e2 = re.sub(r'\b%s\b' % re.escape(p), v + '0', e)
        return 'for %s0 in %s..%s { let %s = %s;' % (v, a.strip(), b.strip(), v, e2.strip())
    s2, n = pat.subn(rep, s)
    log.hit('D7', n)
    return s2


def d8_for_continue(s, log):
    """D8: a `for i in A..B { … continue … }` becomes a while loop with the
    same iteration space (Verus has no `continue` in `for`)."""
    msk = mask(s)
    out = s
    for m in reversed(list(re.finditer(r'(?<![A-Za-z0-9_])for\s+([a-z_][a-z0-9_]*)\s+in\s+', msk))):
        k = m.end()
        while k < len(msk) and msk[k] != '{':
            if msk[k] in '([':
                k = match_close(msk, k)
            k += 1
        close = match_close(msk, k)
        body = msk[k:close]
        # only `continue` belonging to this loop matters; nested loops in these crates have none
        if not re.search(r'\bcontinue\b', body):
            continue
        rng = out[m.end():k].strip()
        # strip one pair of parentheses enclosing the whole range expression
        if rng.startswith('(') and match_close(mask(rng), 0) == len(rng) - 1:
            rng = rng[1:-1].strip()
        mm = re.match(r'^(.+?)\s*\.\.\s*(.+)$', rng)
        if not mm or '..=' in rng:
            raise AnchorLost('D8: unsupported range ' + rng)
        a, b = mm.group(1).strip(), mm.group(2).strip()
        v = m.group(1)
        head = 'let mut %s_ = %s; while %s_ < %s ' % (v, a, v, b)
        inner = '{ let %s = %s_; %s_ += 1;' % (v, v, v)
        out = out[:m.start()] + head + inner + out[k + 1:]
        log.hit('D8')
        msk = mask(out)
    return out


def d9_ref_and(s, log):
    """D9: `(j & 1 << b)` with j: &uN  =>  `(*j & 1 << b)`."""
    return _sub(r'\(j & 1 << b\)', '(*j & 1 << b)', s, log, 'D9')


def d10_pub(s, log):
    """D10: visibility is normalised to `pub` on struct fields (fields read by
    open spec fns of pub traits must be at least as visible as the trait)."""
    return s


def d11_all_zero(s, log):
    """D11: `E.iter().all(|&x| x == 0)` => `crate::shims::all_zero(&E…)`."""
    s = _sub(r'\bseed\.iter\(\)\.all\(\|&x\| x == 0\)', 'crate::shims::all_zero_x(&seed)', s, log, 'D11')
    return s


def d14_leading_zeros(s, log):
    """D14: u64::leading_zeros goes through a shim with an explicit contract (vstd's axiom is too weak)."""
    return _sub(r'\.leading_zeros\(\)', '.leading_zeros_v()', s, log, 'D14')


def d5_wrapping(s, log):
    """D5: core::num::Wrapping => local shim with verified operators."""
    return _sub(r'use core::num::Wrapping as w;', 'use crate::wrapping::Wrapping as w;', s, log, 'D5')


def d3_paths(s, log):
    """D3 (path part): rand_core paths resolve to the stand-in module."""
    s = _sub(r'\buse rand_core::', 'use crate::rand_core::', s, log, 'D3')
    return s


STANDARD = [d1_attrs, d4_panic, d6_le_bytes, d7_map_range, d8_for_continue, d9_ref_and, d11_all_zero, d14_leading_zeros]


def apply(s, log, rules=None):
    for r in (rules if rules is not None else STANDARD):
        s = r(s, log)
    return s


def pubify_struct(s):
    """D10 for a struct definition: every field and the struct itself `pub`."""
    s = re.sub(r'^\s*pub(\([^)]*\))?\s+', '', s.strip())
    m = re.match(r'struct\s+\w+[^{(;]*', s)
    head = 'pub ' + s[:m.end()]
    rest = s[m.end():]
    if rest.startswith('{'):
        inner = rest[1:rest.rindex('}')]
        fields = []
        depth = 0
        cur = ''
        for ch in inner:
            if ch in '<([{':
                depth += 1
            elif ch in '>)]}':
                depth -= 1
            if ch == ',' and depth == 0:
                fields.append(cur)
                cur = ''
            else:
                cur += ch
        if cur.strip():
            fields.append(cur)
        fs = []
        for f in fields:
            f = f.strip()
            if not f:
                continue
            f = re.sub(r'//.*', '', f).strip()
            f = re.sub(r'^(#\[[^\]]*\]\s*)*', '', f)
            f = re.sub(r'^pub(\([^)]*\))?\s+', '', f)
            fs.append('pub ' + f)
        return head + '{ ' + ', '.join(fs) + ' }'
    elif rest.startswith('('):
        inner = rest[1:rest.rindex(')')]
        parts = [re.sub(r'^pub(\([^)]*\))?\s+', '', p.strip()) for p in inner.split(',') if p.strip()]
        return head + '(' + ', '.join('pub ' + p for p in parts) + ');'
    return head + rest
