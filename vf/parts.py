"""Parts: the pieces of machinery a property check is assembled from.
Each part yields a set of obligations with a status; the driver (check) selects
those tagged with the property being decided."""
import importlib.util
import json
import os
import re
import time

from .rs import AnchorLost
from .unit import run_verus, Undecided, WORK

ROOT = os.path.dirname(os.path.dirname(os.path.abspath(__file__)))

DISCHARGED, FAILED, UNDECIDED = 'discharged', 'failed', 'undecided'


class Ob:
    def __init__(self, oid, props, status, backend, fn='', kind='', text='', detail=None, time_us=None, bounded=None):
        self.id = oid
        self.props = list(props)
        self.status = status
        self.backend = backend
        self.fn = fn
        self.kind = kind
        self.text = text
        self.detail = detail or []
        self.time_us = time_us
        self.bounded = bounded   # None = complete; otherwise a string stating the bound

    def sample(self):
        d = dict(id=self.id, fn=self.fn, kind=self.kind, backend=self.backend, status=self.status)
        if self.text:
            d['clause'] = self.text
        if self.time_us is not None:
            d['time_us'] = self.time_us
        if self.bounded:
            d['bounded'] = self.bounded
        return d


class PartResult:
    def __init__(self, name):
        self.name = name
        self.obs = []
        self.undecided = []      # reasons that make the whole part undecided
        self.assumptions = []
        self.info = {}
        self.wall_s = 0.0
        self.cmd = ''


def load_unit_module(unit):
    p = os.path.join(ROOT, 'contracts', unit, 'unit.py')
    spec = importlib.util.spec_from_file_location('contracts_%s_unit' % unit, p)
    m = importlib.util.module_from_spec(spec)
    spec.loader.exec_module(m)
    return m


ASSUME_PAT = re.compile(r'\b(assume\s*\(|admit\s*\(|external_body|assume_specification|verifier::external|exec_allows_no_decreases_clause)')


def assumption_scan(text):
    """Mechanical scan of the woven file for unproved assumptions; returned as a
    sorted list of (kind, context) so that the allow-list can be compared."""
    found = {}
    lines = text.splitlines()
    for i, l in enumerate(lines):
        code = l.split('//')[0]
        for m in ASSUME_PAT.finditer(code):
            k = m.group(1).strip().rstrip('(').strip()
            # context: the next fn / item name
            ctx = ''
            for j in range(i, min(i + 6, len(lines))):
                mm = re.search(r'\bfn\s+(\w+)|\[\s*([A-Za-z0-9_:<> ]+?)\s*\]\s*\(', lines[j])
                if mm:
                    ctx = mm.group(1) or mm.group(2)
                    break
            found.setdefault(k, set()).add(ctx.strip())
    return {k: sorted(v) for k, v in sorted(found.items())}


_VERUS_CACHE = {}


def verus_part(unit_name, threads=16, rlimit=200, builder_kwargs=None, tag='', ignore_baseline=False):
    key = (unit_name, tag, json.dumps(builder_kwargs or {}, sort_keys=True))
    if key in _VERUS_CACHE:
        return _VERUS_CACHE[key]
    pr = PartResult('verus:' + unit_name + tag)
    t0 = time.time()
    try:
        mod = load_unit_module(unit_name)
        unit = mod.build(**(builder_kwargs or {}))
        obs = unit.obligations()
    except (AnchorLost, Undecided) as e:
        pr.undecided.append('%s: %s' % (type(e).__name__, e))
        pr.wall_s = time.time() - t0
        _VERUS_CACHE[key] = pr
        return pr
    # census against the committed baseline
    bpath = os.path.join(ROOT, 'contracts', unit_name, 'baseline.json')
    baseline = json.load(open(bpath)) if (os.path.exists(bpath) and not ignore_baseline) else None
    res = run_verus(unit, rlimit=rlimit, threads=threads, tag=tag)
    pr.cmd = res.cmd
    pr.info = dict(unit=unit_name, woven_file=res.file, woven_sha256=res.sha, sources=unit.sources,
                   dialect_rules_fired=unit.log.counts, verus_version=res.version, smt_ms=res.smt_ms, verus_total_ms=res.total_ms,
                   functions_verified=res.summary.get('verified') if hasattr(res, 'summary') else None,
                   functions_under_contract=sorted(unit.contracts.keys()), lemmas=sorted(unit.lemmas.keys()),
                   not_under_contract=unit.not_under_contract,
                   assumption_scan=assumption_scan(unit.text()), crate_fns=unit.census)
    pr.unit = unit
    pr.res = res
    pr.assumptions = list(unit.assumptions)
    if res.compile_errors:
        pr.undecided.append('verus/rustc rejected the woven file (not a verification failure):\n' + '\n'.join(res.compile_errors[:3]))
    for u in res.undecided:
        pr.undecided.append('resource limit / solver gave up: ' + u)
    if baseline is not None:
        missing = [o for o in baseline['obligations'] if o not in obs]
        if missing:
            pr.undecided.append('obligations of the baseline are no longer generated: %s' % missing[:5])
        nver = res.summary.get('verified', 0) + res.summary.get('errors', 0) if hasattr(res, 'summary') and res.summary else 0
        if not res.compile_errors and nver < baseline.get('functions', 0):
            pr.undecided.append('verus reported %d functions, baseline has %d' % (nver, baseline.get('functions', 0)))
        for cname, fns in (baseline.get('crate_fns') or {}).items():
            new_fns = sorted(set(unit.census.get(cname, [])) - set(fns))
            if new_fns:
                pr.undecided.append('functions of %s that are not in the committed census (new code that no contract covers, e.g. an override of a '
                                    'defaulted trait method or a new impl): %s' % (cname, new_fns[:8]))
        allow = baseline.get('assumption_scan')
        if allow is not None and allow != pr.info['assumption_scan']:
            pr.undecided.append('assumption scan differs from the committed allow-list: %s vs %s' % (pr.info['assumption_scan'], allow))
    # per-function time
    def fn_time(path):
        # path  mod::Trait@Type::fn  ->  unit::mod::Type::fn
        parts = path.split('::')
        parts = [p.split('@')[-1] for p in parts]
        nm = unit_name + '::' + '::'.join(parts)
        e = res.ok_fns.get(nm)
        return e['time_us'] if e else None
    failed_ids = set(res.failed.keys())
    whole_undecided = bool(pr.undecided)
    fn_failed = {}
    for oid in failed_ids:
        f = oid.split('#')[0] if '#' in oid else (obs[oid]['fn'] if oid in obs else oid)
        fn_failed.setdefault(f, []).append(oid)
    for oid, o in obs.items():
        if oid in res.failed:
            st = FAILED
        elif whole_undecided:
            st = UNDECIDED
        else:
            st = DISCHARGED
        pr.obs.append(Ob(oid, o['props'], st, 'verus/z3', fn=o['fn'], kind=o['kind'], text=o['text'], detail=res.failed.get(oid), time_us=fn_time(o['fn'])))
    # failures that are not a registered obligation (#proof, #trait, unlocated)
    for oid, det in res.failed.items():
        if oid in obs:
            continue
        if oid.endswith('#proof') or oid.endswith('#trait'):
            f = oid.rsplit('#', 1)[0]
            fc = unit.contracts.get(f)
            props = set()
            if fc:
                if oid.endswith('#trait') and getattr(fc, 'trait_props', None):
                    props |= set(fc.trait_props)
                else:
                    for c in fc.clauses():
                        props |= set(c.props)
                    # a failed proof step is never attributed to the safety properties: if a safety fact depended on
                    # it, the corresponding built-in obligation fails as well and is reported as such
                    props -= {'C14', 'C18', 'C19'}
            pr.obs.append(Ob(oid, sorted(props), FAILED, 'verus/z3', fn=f, kind=oid.rsplit('#', 1)[1], text='woven proof step / trait-level contract in ' + f, detail=det))
        else:
            # cannot attribute: make the part undecided rather than guess
            pr.undecided.append('verification failure that could not be attributed to an obligation: %s' % det[0]['message'])
    pr.wall_s = time.time() - t0
    _VERUS_CACHE[key] = pr
    return pr
