"""Weaving of contracts onto function text sliced from the expanded crate.

The executable text is never edited except by the documented dialect rules
(dialect.py); contracts add `requires/ensures/invariant/decreases` clauses and
ghost/proof blocks, all erasable.  Every woven clause is bracketed by marker
comments so that a Verus diagnostic (byte span in the woven file) can be mapped
back to a clause id:

    /*@<id*/ clause text /*@>*/          a contract clause
    /*@F<path*/ fn … /*@F>*/             a woven function
"""
import re
from .rs import mask, match_close, AnchorLost


class Clause:
    def __init__(self, cid, props, text):
        self.id = cid
        self.props = props.split() if isinstance(props, str) else list(props)
        self.text = text.strip()

    def render(self):
        return '/*@<%s*/ %s /*@>*/' % (self.id, self.text)


def C(cid, props, text):
    return Clause(cid, props, text)


class Loop:
    def __init__(self, invariants=(), decreases=None, iter_name=None, except_break=(), ensures=()):
        self.invariants = list(invariants)
        self.decreases = decreases
        self.iter_name = iter_name
        self.except_break = list(except_break)
        self.ensures = list(ensures)


class Fn:
    """Contract for one function."""

    def __init__(self, path, ret=None, requires=(), ensures=(), decreases=None, attrs=(), loops=None,
                 inserts=(), builtin_props='', sig_rewrites=(), dialect=(), trait_props=''):
        self.path = path
        self.ret = ret
        self.requires = list(requires)
        self.ensures = list(ensures)
        self.decreases = decreases
        self.attrs = list(attrs)
        self.loops = dict(loops or {})
        self.inserts = list(inserts)
        self.builtin_props = builtin_props.split() if isinstance(builtin_props, str) else list(builtin_props)
        self.sig_rewrites = list(sig_rewrites)
        self.dialect = list(dialect)
        self.trait_props = trait_props.split() if isinstance(trait_props, str) else list(trait_props)

    def clauses(self):
        out = list(self.requires) + list(self.ensures)
        for lp in self.loops.values():
            out += lp.invariants + lp.except_break + lp.ensures
        for ins in self.inserts:
            out += ins.clauses
        return out


class Insert:
    """Ghost/proof text placed at an anchor.  mode: 'entry' | 'before' | 'after'.
    `pat` is a regex over the (masked, post-dialect) function text; `occ` is the
    1-based occurrence, or 'all'.  Text may contain `{clause:ID}`-less plain
    Verus; assertions that should count as named obligations are passed as
    clauses=[C(..)] and referenced in text as `@0`, `@1`, …"""

    def __init__(self, mode, pat, text, occ=1, clauses=()):
        self.mode = mode
        self.pat = pat
        self.text = text
        self.occ = occ
        self.clauses = list(clauses)

    def render(self):
        t = self.text
        for k, c in enumerate(self.clauses):
            t = t.replace('@%d@' % k, c.render())
        # woven ghost/proof text is bracketed so that a failure inside it is classified as a proof step of the
        # function's contract, never as one of the built-in safety obligations of the executable code
        return '/*@P<*/' + t + '/*@P>*/'


def lit(s):
    """Regex matching the literal Rust text `s` with flexible whitespace."""
    parts = [re.escape(p) for p in s.split()]
    return r'\s*'.join(parts)


def entry(text, clauses=()):
    return Insert('entry', None, text, clauses=clauses)


def tail(text, clauses=()):
    return Insert('tail', None, text, clauses=clauses)


def before(pat, text, occ=1, clauses=()):
    return Insert('before', pat, text, occ, clauses)


def after(pat, text, occ=1, clauses=()):
    return Insert('after', pat, text, occ, clauses)


_LOOP_KW = re.compile(r'(?<![A-Za-z0-9_\'])(for|while|loop)\b')


def nested_fn_ranges(masked, lo, hi):
    """Ranges of nested `fn` items inside a function body."""
    out = []
    for m in re.finditer(r'(?<![A-Za-z0-9_])fn\s+[A-Za-z_][A-Za-z0-9_]*\s*[<(]', masked[lo:hi]):
        s = lo + m.start()
        if any(a <= s < b for a, b in out):
            continue
        k = s
        while k < hi and masked[k] != '{':
            if masked[k] in '([':
                k = match_close(masked, k)
            k += 1
        if k < hi:
            out.append((s, match_close(masked, k) + 1))
    return out


def find_loops(masked, lo, hi):
    """Return [(kw_start, kw, brace_open)] for loops in masked[lo:hi], in
    textual order, skipping nested fn items."""
    skip = nested_fn_ranges(masked, lo, hi)
    res = []
    for m in _LOOP_KW.finditer(masked, lo, hi):
        s = m.start()
        if any(a <= s < b for a, b in skip):
            continue
        # `impl Trait for X` cannot occur inside a body; `for<'a>` HRTB is not used here
        k = m.end()
        while k < hi and masked[k] != '{':
            if masked[k] in '([':
                k = match_close(masked, k)
            k += 1
        if k >= hi:
            raise AnchorLost('loop without body')
        res.append((s, m.group(1), k))
    return res


def weave_fn(src, fc):
    """src: function text (post-dialect), starting at `fn`/`pub fn`; returns
    woven text.  Raises AnchorLost if an anchor is missing."""
    msk = mask(src)
    # locate signature end = the `{` opening the body
    k = 0
    n = len(src)
    while k < n and msk[k] != '{':
        if msk[k] in '([':
            k = match_close(msk, k)
        k += 1
    if k >= n:
        raise AnchorLost('function without body: ' + fc.path)
    body_open = k
    body_close = match_close(msk, body_open)
    sig = src[:body_open]
    for pat, rep in fc.sig_rewrites:
        sig2 = re.sub(pat, rep, sig)
        if sig2 == sig:
            raise AnchorLost('signature rewrite did not apply in %s: %s' % (fc.path, pat))
        sig = sig2
    if fc.ret:
        # name the return value:  `-> T` … becomes `-> (r: T)`
        m = re.search(r'->\s*', sig)
        if not m:
            raise AnchorLost('no return type to name in ' + fc.path)
        rest = sig[m.end():]
        mw = re.search(r'\bwhere\b', mask(rest))
        ty = rest[:mw.start()] if mw else rest
        tail = rest[mw.start():] if mw else ''
        sig = sig[:m.start()] + '-> (%s: %s) ' % (fc.ret, ty.strip()) + tail
    spec = ''
    if fc.requires:
        spec += '\n    requires\n' + ''.join('        %s,\n' % c.render() for c in fc.requires)
    if fc.ensures:
        spec += '\n    ensures\n' + ''.join('        %s,\n' % c.render() for c in fc.ensures)
    if fc.decreases:
        spec += '\n    decreases %s\n' % fc.decreases
    # edits inside the body: collect (offset, text) insertions on src coordinates
    edits = []
    loops = find_loops(msk, body_open + 1, body_close)
    for ordinal, lp in fc.loops.items():
        if ordinal >= len(loops):
            raise AnchorLost('loop %d not found in %s (has %d)' % (ordinal, fc.path, len(loops)))
        s, kw, bo = loops[ordinal]
        t = ''
        if lp.except_break:
            t += '\n    invariant_except_break\n' + ''.join('        %s,\n' % c.render() for c in lp.except_break)
        if lp.invariants:
            t += '\n    invariant\n' + ''.join('        %s,\n' % c.render() for c in lp.invariants)
        if lp.ensures:
            t += '\n    ensures\n' + ''.join('        %s,\n' % c.render() for c in lp.ensures)
        if lp.decreases:
            t += '\n    decreases %s\n' % lp.decreases
        edits.append((bo, t))
        if lp.iter_name:
            if kw != 'for':
                raise AnchorLost('iter_name on a non-for loop in ' + fc.path)
            m = re.compile(r'\bin\b').search(msk, s, bo)
            if not m:
                raise AnchorLost('for without in')
            edits.append((m.end(), ' %s:' % lp.iter_name))
    for ins in fc.inserts:
        txt = ins.render()
        if ins.mode == 'entry':
            edits.append((body_open + 1, '\n' + txt + '\n'))
            continue
        if ins.mode in ('loopbody', 'afterloop'):
            if ins.pat >= len(loops):
                raise AnchorLost('loop %d not found in %s' % (ins.pat, fc.path))
            _s, _kw, bo = loops[ins.pat]
            if ins.mode == 'loopbody':
                edits.append((bo + 1, '\n' + txt + '\n'))
            else:
                edits.append((match_close(msk, bo) + 1, '\n' + txt + '\n'))
            continue
        if ins.mode == 'end':
            # after the last statement of a unit-returning body
            prev = msk[body_open + 1:body_close].rstrip()
            sep = ';' if prev and prev[-1] not in ';}' else ''
            edits.append((body_close, sep + '\n' + txt + '\n'))
            continue
        if ins.mode == 'tail':
            # before the final expression of the body: after the last `;` at brace depth 0
            k2, last = body_open + 1, None
            while k2 < body_close:
                ch = msk[k2]
                if ch in '([':
                    k2 = match_close(msk, k2)
                elif ch == '{':
                    k2 = match_close(msk, k2)
                    # a block statement (for/while/loop/if/match/bare block) ends a statement unless it is the
                    # final expression itself or is continued by a method call / operator
                    k3 = k2 + 1
                    while k3 < body_close and msk[k3].isspace():
                        k3 += 1
                    if k3 < body_close and msk[k3] not in '.?;)],=+-*/&|^<>' and not msk.startswith('else', k3) and not msk.startswith('as ', k3):
                        last = k2
                elif ch == ';':
                    last = k2
                k2 += 1
            edits.append(((last + 1) if last is not None else body_open + 1, '\n' + txt + '\n'))
            continue
        ms = [m for m in re.finditer(ins.pat, msk[body_open + 1:body_close])]
        if not ms:
            raise AnchorLost('anchor /%s/ not found in %s' % (ins.pat, fc.path))
        if ins.occ == 'all':
            sel = ms
        else:
            if ins.occ > len(ms):
                raise AnchorLost('anchor /%s/ occurrence %d not found in %s' % (ins.pat, ins.occ, fc.path))
            sel = [ms[ins.occ - 1]]
        for m in sel:
            off = body_open + 1 + (m.start() if ins.mode == 'before' else m.end())
            edits.append((off, '\n' + txt + '\n'))
    # apply edits back to front; stable for equal offsets (keep given order)
    body = src[body_open:]
    out = body
    for _idx, (off, t) in sorted(enumerate(edits), key=lambda e: (-e[1][0], -e[0])):
        o = off - body_open
        out = out[:o] + t + out[o:]
    attrs = ''.join(a + '\n' for a in fc.attrs)
    return '/*@F<%s*/\n%s%s%s%s\n/*@F>*/' % (fc.path, attrs, sig.rstrip() + ' ', spec, out)


_MARK = re.compile(r'/\*@([FP]?)(<|>)([^*]*)\*/')


def marker_map(woven):
    """Return (clause_ranges, fn_ranges): lists of (start, end, id)."""
    clauses, fns = [], []
    stack_c, stack_f, stack_p = [], [], []
    proofs = []
    for m in _MARK.finditer(woven):
        isf, d, ident = m.group(1), m.group(2), m.group(3)
        if isf == 'P':
            if d == '<':
                stack_p.append(m.start())
            else:
                proofs.append((stack_p.pop(), m.end(), 'proof'))
        elif isf:
            if d == '<':
                stack_f.append((m.start(), ident))
            else:
                s, ident0 = stack_f.pop()
                fns.append((s, m.end(), ident0))
        else:
            if d == '<':
                stack_c.append((m.start(), ident))
            else:
                s, ident0 = stack_c.pop()
                clauses.append((s, m.end(), ident0))
    marker_map.proofs = proofs
    return clauses, fns
