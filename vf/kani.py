"""Kani harness sets: complete (or labelled bounded) proofs on the real compiled crates and on the rand_core
dependency.  One obligation per harness; a harness that FAILS is a violation (with Kani's concrete values), a
harness that times out / cannot be built is undecided."""
import json
import os
import re
import subprocess
import time

from .parts import PartResult, Ob, DISCHARGED, FAILED, UNDECIDED, ROOT

WORK = os.path.join(ROOT, '.work')
REPO = os.environ.get('RNGS_REPO', '/repo')


class H:
    def __init__(self, name, props, crate='ext', tier='quick', bounded=None, flags=(), timeout=900, note='', qual=None, proof_only=False):
        self.name = name
        self.qual = qual            # fully qualified harness path (module::name); set by register() when None
        self.props = props.split()
        self.crate = crate          # 'ext' or a /repo package name (in-crate harness behind the rngs_verif hook)
        self.tier = tier              # quick | thorough | fallback (only run by the fallback layer)
        self.proof_only = proof_only  # abstracted (uninterpreted multiplication): good for proving, slow at refuting; skipped by the fallback layer
        self.bounded = bounded
        self.flags = list(flags)
        self.timeout = timeout
        self.note = note


SETS = {}
MEM_LIMIT_GB = 14


def register(setname, harnesses, module=None):
    for h in harnesses:
        if h.qual is None:
            h.qual = (module or setname) + '::' + h.name
    SETS[setname] = harnesses


def _cmd(crate):
    env = dict(os.environ, CARGO_NET_OFFLINE='true', RNGS_VERIF_DIR=ROOT)
    env.pop('RUSTFLAGS', None)
    if crate == 'ext':
        cwd = os.path.join(ROOT, 'kani', 'ext')
        env['CARGO_TARGET_DIR'] = os.path.join(WORK, 'kani-ext-target')
        lock = os.path.join(REPO, 'Cargo.lock')
    else:
        cwd = os.path.join(REPO, crate)
        env['CARGO_TARGET_DIR'] = os.path.join(WORK, 'kani-%s-target' % crate)
        env['RUSTFLAGS'] = '--cfg rngs_verif'
    return cwd, env


def run_harness(h, playback=False):
    cwd, env = _cmd(h.crate)
    cmd = ['cargo', 'kani', '--harness', h.qual, '-Z', 'stubbing', '-Z', 'function-contracts', '--exact'] + h.flags
    if h.crate != 'ext' and h.crate.startswith('rand_') and '--features' not in h.flags:
        pass
    if playback:
        cmd += ['-Z', 'concrete-playback', '--concrete-playback=print']
    t0 = time.time()

    def limit():
        import resource
        # CBMC can exhaust the machine (62 GB, no swap) on a harness that is too ambitious: cap the address space
        resource.setrlimit(resource.RLIMIT_AS, (MEM_LIMIT_GB << 30, MEM_LIMIT_GB << 30))
        os.setsid()
    try:
        r = subprocess.run(cmd, cwd=cwd, env=env, stdout=subprocess.PIPE, stderr=subprocess.STDOUT, text=True, timeout=h.timeout, preexec_fn=limit)
        out = r.stdout
        timed_out = False
    except subprocess.TimeoutExpired as e:
        out = (e.stdout or b'').decode() if isinstance(e.stdout, bytes) else (e.stdout or '')
        timed_out = True
        subprocess.run('pkill -f "%s" ; pkill -f "cbmc.*%s"' % (h.qual, h.name), shell=True)
    return out, time.time() - t0, timed_out, ' '.join(cmd)


def parse(out):
    m = re.search(r'VERIFICATION:- (SUCCESSFUL|FAILED)', out)
    verdict = m.group(1) if m else None
    checks = re.search(r'\*\* (\d+) of (\d+) failed', out)
    nfail, ntotal = (int(checks.group(1)), int(checks.group(2))) if checks else (None, None)
    failed_desc = []
    for mm in re.finditer(r'Failed Checks: (.*)', out):
        failed_desc.append(mm.group(1).strip())
    unwind_fail = 'unwinding assertion' in out and any('unwinding' in d for d in failed_desc)
    # CBMC running out of memory / crashing is reported by Kani as FAILED without any failed check: that is undecided
    if verdict == 'FAILED' and (not failed_desc or 'Out of memory' in out or 'CBMC failed with status' in out or 'CBMC timed out' in out):
        if not failed_desc or 'Out of memory' in out or 'CBMC failed with status' in out:
            verdict = None
    return verdict, nfail, ntotal, failed_desc, unwind_fail


def harness_level_only(out, crate):
    """True iff every failed check is located in harness code, i.e. no check inside the code under test failed.  Harness code is
    kani/ext/src/*.rs (reported relative to the ext crate: "src/...") or kani/incrate/*.rs (included into the crates of /repo)."""
    locs = re.findall(r'Failed Checks: (.*?)\n\s*File: "([^"]*)"', out, re.S)   # a description may span several lines
    n = len(re.findall(r'Failed Checks: ', out))

    def harness_file(f):
        if 'kani/incrate' in f or '/verif/kani/' in f:
            return True
        return crate == 'ext' and f.startswith('src/')
    return n > 0 and len(locs) == n and all(harness_file(f) for _d, f in locs)


_CACHE = {}


def kani_part(setname, tier='quick', prop=None, stop_on_failure=False, only=None):
    key = (setname, tier, prop, stop_on_failure, only)
    if key in _CACHE:
        return _CACHE[key]
    r = _kani_part(setname, tier, prop, stop_on_failure, only)
    _CACHE[key] = r
    return r


def _kani_part(setname, tier='quick', prop=None, stop_on_failure=False, only=None):
    pr = PartResult('kani:' + setname)
    if stop_on_failure:
        # fallback mode: the question is "is there a failing input"
        sel = lambda h: not h.proof_only
    elif tier == 'thorough':
        sel = lambda h: h.tier in ('quick', 'thorough')
    else:
        sel = lambda h: h.tier == 'quick'
    hs = [h for h in SETS[setname] if sel(h) and (prop is None or prop in h.props)]
    if only == 'xorshift':
        hs = [h for h in hs if h.name.endswith('xorshift')]
    elif only == 'xoshiro':
        hs = [h for h in hs if not h.name.endswith('xorshift')]
    t0 = time.time()
    from concurrent.futures import ThreadPoolExecutor
    # harnesses of one crate share a target directory: the first run builds, the rest reuse; run a few in parallel
    stop = {'flag': False}

    def one(h):
        if stop['flag']:
            return h, ('SKIPPED', 0.0, False, '')
        r = run_harness(h)
        if stop_on_failure and parse(r[0])[0] == 'FAILED':
            stop['flag'] = True      # fallback mode: one exhibited violation is enough
        return h, r
    results = []
    if hs:
        # build once serially (first harness), then the rest in parallel
        results.append(one(hs[0]))
        with ThreadPoolExecutor(max_workers=8) as ex:
            results += list(ex.map(one, hs[1:]))
    cmds = []
    for h, (out, secs, timed_out, cmd) in results:
        cmds.append(cmd)
        verdict, nfail, ntotal, failed_desc, unwind_fail = parse(out)
        detail = []
        if out == 'SKIPPED':
            continue   # not run (fallback stopped after the first exhibited violation); not an obligation of this run
        if timed_out:
            st = UNDECIDED
            detail = [dict(message='kani timed out after %ds' % h.timeout)]
        elif verdict == 'SUCCESSFUL':
            st = DISCHARGED
        elif verdict == 'FAILED' and not unwind_fail and prop in ('C14', 'C18') and set(h.props) - {'C14', 'C18'} and harness_level_only(out, h.crate):
            # a functional harness doubling as a panic-freedom check: only a failed check inside the code under test (overflow, bounds,
            # panic) says anything about C14/C18; its own value assertions failing is a matter of the functional properties it names
            st = UNDECIDED
            detail = [dict(message='only value assertions of the harness failed (%s): no panic/overflow check failed, nothing to report for %s'
                           % ('; '.join(failed_desc)[:200], prop))]
        elif verdict == 'FAILED' and not unwind_fail:
            st = FAILED
            # concrete values (Kani's concrete playback); once per part is enough to exhibit an input
            if getattr(pr, '_playback_done', False):
                pout = ''
            else:
                pr._playback_done = True
                pout, _, _, _ = run_harness(h, playback=True)
            vals = re.findall(r'concrete_vals.*|// [-0-9]+.*|vec!\[[^\]]*\]', pout)
            detail = [dict(message='; '.join(failed_desc)[:600], rendered=out[-3000:], concrete_playback=pout[pout.find('Concrete playback'):][:4000] if 'Concrete playback' in pout else '\n'.join(vals)[:4000])]
        elif verdict == 'FAILED' and unwind_fail:
            st = UNDECIDED
            detail = [dict(message='unwinding assertion failed (bound too small): ' + '; '.join(failed_desc)[:300])]
        else:
            st = UNDECIDED
            detail = [dict(message='kani did not produce a verdict (build error?)', rendered=out[-3000:])]
        pr.obs.append(Ob('kani:' + h.name, h.props, st, 'kani/cbmc', fn=h.crate + '::' + h.name, kind='harness',
                         text=(h.note or h.name) + (' [%d CBMC checks]' % ntotal if ntotal else ''), detail=detail,
                         time_us=int(secs * 1e6), bounded=h.bounded))
    pr.cmd = 'cargo kani --harness <h> -Z stubbing -Z function-contracts (per harness; crate %s)' % ','.join(sorted({h.crate for h in hs}))
    pr.info = dict(set=setname, harnesses=[h.name for h in hs], crates=sorted({h.crate for h in hs}))
    pr.wall_s = time.time() - t0
    return pr


register('std_shims', [
    H('shim_rotate', 'C01 C02 C04 C12 C14', note='u32/u64::rotate_left/right == shift-or formula (T3)'),
    H('shim_wrapping_u32', 'C03 C04 C14', note='core::num::Wrapping<u32> operators == local stand-in (T4)'),
    H('shim_wrapping_u64', 'C03 C14', note='core::num::Wrapping<u64> operators == local stand-in (T4)'),
    H('shim_le_bytes', 'C01 C04 C05 C08 C09', note='to_le_bytes/from_le_bytes == open LE specs (T4)'),
    H('shim_leading_zeros', 'C13', note='u64::leading_zeros == 64 - bitlen (D14)'),
    H('shim_unsigned_abs', 'C13 C14 C12', note='i32/i64::unsigned_abs, i32::wrapping_sub (T3)'),
    H('shim_all_zero', 'C08', note='seed.iter().all(|&x| x == 0) on arrays and Seed512 == all bytes zero (D11)'),
])
register('rc_glue', [
    H('rc_read_u32_into_2', 'C01 C08 C09', note='le::read_u32_into, 2 words (T5)'),
    H('rc_read_u32_into_4', 'C01 C04 C08 C09', note='le::read_u32_into, 4 words (T5)'),
    H('rc_read_u32_into_8', 'C02 C03 C09', note='le::read_u32_into, 8 words (T5)'),
    H('rc_read_u64_into_1', 'C01 C09', note='le::read_u64_into, 1 word (T5)'),
    H('rc_read_u64_into_2', 'C01 C08 C09', note='le::read_u64_into, 2 words (T5)'),
    H('rc_read_u64_into_4', 'C01 C03 C08 C09', note='le::read_u64_into, 4 words (T5)'),
    H('rc_read_u64_into_8', 'C01 C08 C09', note='le::read_u64_into, 8 words (T5)'),
    H('rc_from_rng_default_8', 'C09', note='SeedableRng::from_rng default: one fill_bytes of the seed length, then from_seed (T5)'),
    H('rc_from_rng_default_16', 'C09'),
    H('rc_from_rng_default_32', 'C09'),
    H('rc_from_rng_default_64', 'C09', note='… with Seed512 (Default, AsMut)'),
    H('rc_try_from_rng_default_8', 'C09', note='try_from_rng default: same generator on success, the source error and no generator on failure'),
    H('rc_try_from_rng_default_16', 'C09'),
    H('rc_try_from_rng_default_32', 'C09'),
    H('rc_try_from_rng_default_64', 'C09'),
] + [H('rc_%sfrom_rng_%s' % (t, n), 'C09', note='%s::%sfrom_rng: the rand_core default applies (one fill_bytes of the seed length, then from_seed)' % (n, t))
     for n in ('splitmix64', 'xoroshiro64starstar', 'xoroshiro128plusplus', 'xoroshiro128starstar', 'xoshiro128plus', 'xoshiro128plusplus', 'xoshiro128starstar',
               'xoshiro256plus', 'xoshiro256starstar', 'xoshiro512plusplus', 'xoshiro512starstar') for t in ('', 'try_')]
  + [H('rc_zero_%sfrom_rng_%s' % (t, n), 'C08', note='%s::%sfrom_rng on a source that serves bytes and words from one LE stream: an all-zero block gives seed_from_u64(0), every other block is used verbatim (never the zero state)' % (n, t))
     for n in ('xoroshiro64star', 'xoroshiro64starstar', 'xoroshiro128plus', 'xoroshiro128plusplus', 'xoroshiro128starstar', 'xoshiro128plus', 'xoshiro128plusplus', 'xoshiro128starstar',
               'xoshiro256plus', 'xoshiro256plusplus', 'xoshiro256starstar', 'xoshiro512plus', 'xoshiro512plusplus', 'xoshiro512starstar') for t in ('', 'try_')])
register('blockrng', [
    H('blockrng_next_u32', 'C05 C02 C03 C14', note='BlockRng::next_u32: next stream word, refill exactly at the block boundary (any read position, arbitrary block contents)'),
    H('blockrng_next_u64', 'C05 C14', note='BlockRng::next_u64 == (second << 32) | first, incl. the straddling cases'),
    H('blockrng_fill_bytes', 'C05 C14', bounded='2-word blocks, n <= 2 blocks + 3 bytes, every start position', tier='thorough', timeout=1500,
      note='BlockRng::fill_bytes(n): first n LE bytes of the next ceil(n/4) words, across refills'),
    H('blockrng64_next_u64', 'C05 C03 C14', note='BlockRng64::next_u64 (discards a pending half)'),
    H('blockrng64_next_u32_pair', 'C05 C14', note='BlockRng64::next_u32: low half then high half of the same word'),
    H('blockrng64_fill_bytes', 'C05 C14', bounded='2-word blocks, n <= 2 blocks + 7 bytes, every start position, with/without pending half', tier='thorough', timeout=2400,
      note='BlockRng64::fill_bytes(n): first n LE bytes of the next ceil(n/8) words; pending half discarded'),
])
register('hc128_incrate', [
    H('hc128_rng_eq_all_index_pairs', 'C10', crate='rand_hc', tier='thorough', timeout=1800, note='Hc128Rng::eq on a fixed core: == iff the read positions are equal, for all pairs of positions 0..=16'),
    H('hc128_from_seed_le_words', 'C02 C09', crate='rand_hc', note='from_seed: LE words of the seed reach init (recording stub for init)'),
    H('hc128_seed_from_u64_is_pcg32', 'C09', crate='rand_hc', tier='thorough', timeout=3600, note='seed_from_u64 == from_seed(PCG32 expansion); 64-bit multiplication abstracted to an uninterpreted function'),
    H('hc128_from_rng_one_seed', 'C09', crate='rand_hc', note='from_rng: exactly one fill_bytes(32), LE words'),
    H('hc128_try_from_rng', 'C09', crate='rand_hc', note='try_from_rng: same on success; the source error and no generator on failure'),
    H('hc128_core_debug_is_constant', 'C17', crate='rand_hc', tier='thorough', timeout=1800, note='{:?} and {:#?} of an arbitrary Hc128Core == "Hc128Core {}"'),
], module='hc128::rngs_verif_harness')
for _p, _c in (('isaac', 'IsaacCore'), ('isaac64', 'Isaac64Core')):
    register(_p + '_incrate', [
        H(_p + '_from_seed_layout', 'C03 C09', crate='rand_isaac', note=_c + '::from_seed: LE seed words in the first slots, zeros elsewhere, two passes (recording init stub)'),
        H(_p + '_from_rng_layout', 'C09', crate='rand_isaac', note=_c + '::from_rng (unsafe raw-parts): one fill_bytes of the whole slot array, LE words, two passes', timeout=2400),
        H(_p + '_try_from_rng', 'C09', crate='rand_isaac', note=_c + '::try_from_rng: same on success; the source error and no generator on failure', timeout=2400),
        H(_p + '_core_debug_is_constant', 'C17', crate='rand_isaac', tier='thorough', timeout=1800, note='{:?} / {:#?} of an arbitrary core == "%s {}"' % _c),
    ], module=_p + '::rngs_verif_harness')
register('seeding', [
    H('xorshift_seed_from_u64_is_pcg32', 'C09', note='XorShiftRng::seed_from_u64(x) == from_seed(PCG32 expansion of x) for every x'),
    H('xorshift_from_rng_redraws_only_on_zero', 'C08 C09', bounded='at most two leading all-zero blocks', note='XorShiftRng::from_rng: redraw only on an all-zero block; state == LE words of the first non-zero block; source advanced by exactly the blocks drawn'),
    H('xorshift_try_from_rng_agrees_or_fails', 'C08 C09', bounded='at most two leading all-zero blocks', note='XorShiftRng::try_from_rng: same generator as from_rng on a source that does not fail; the source error and no generator when it fails (any failing call)'),
])
register('serde_rt', [H('serde_' + n, 'C11', tier='quick',
                        note='bincode round trip of %s::from_seed(any): restored == original, original untouched' % n, timeout=1500)
                      for n in ('splitmix64', 'xoroshiro64star', 'xoroshiro64starstar', 'xoroshiro128plus', 'xoroshiro128plusplus', 'xoroshiro128starstar',
                                'xoshiro128plus', 'xoshiro128plusplus', 'xoshiro128starstar', 'xoshiro256plus', 'xoshiro256plusplus', 'xoshiro256starstar',
                                'xoshiro512plus', 'xoshiro512plusplus', 'xoshiro512starstar', 'xorshift')])
register('debug', [
    H('xorshift_debug_is_constant', 'C17', note='{:?} / {:#?} of XorShiftRng::from_seed(any) == "XorShiftRng {}"'),
])
register('jitter_incrate', [
    H('jitter_debug_is_constant', 'C17', crate='rand_jitter', note='{:?} / {:#?} of a JitterRng in an arbitrary state == "JitterRng {}"'),
    H('jitter_random_loop_cnt_reads_once', 'C12', crate='rand_jitter', note='random_loop_cnt reads the timer exactly once'),
], module='rngs_verif_harness')

_API32 = ['xoroshiro64star', 'xoroshiro64starstar', 'xoshiro128plus', 'xoshiro128plusplus', 'xoshiro128starstar']
_API64 = ['xoroshiro128plus', 'xoroshiro128plusplus', 'xoroshiro128starstar', 'xoshiro256plus', 'xoshiro256plusplus', 'xoshiro256starstar',
          'xoshiro512plus', 'xoshiro512plusplus', 'xoshiro512starstar']
register('api', [H('api_seed_' + n, 'C01 C08 C14 C18', tier='thorough', timeout=1800,
                   note='%s::from_seed on the public API: non-zero seed verbatim (state observed through serde), zero seed == seed_from_u64(0), never the zero state' % n)
                 for n in _API32 + _API64] +
                [H('api_step_' + n, 'C01 C05 C14 C18', tier='thorough', timeout=1800,
                   note='%s: native next == reference output, state after == reference successor, other-width call == documented projection (public API, arbitrary non-zero state)' % n)
                 for n in _API32 + _API64] +
                [H('api_seed_xorshift', 'C04 C08 C14 C18', tier='thorough', note='XorShiftRng::from_seed: LE words / 0x0BAD5EED (public API)'),
                 H('api_step_xorshift', 'C04 C05 C14 C18', tier='thorough', note='XorShiftRng::next_u32 == xor128 step (public API, arbitrary non-zero state)')])
for _p in ('isaac', 'isaac64'):
    SETS[_p + '_incrate'] += [
        H(_p + '_core_serde_roundtrip', 'C11', crate='rand_isaac', tier='thorough', timeout=2400, flags=['--features', 'serde'], qual=_p + '::rngs_verif_harness::' + _p + '_core_serde_roundtrip',
          note='the ISAAC core in an arbitrary state (259 symbolic words) through derive output + isaac_array_serde (token format): restored == original'),
    ]
_FILL = ['xoshiro128starstar', 'xoshiro256plusplus', 'xoroshiro128plusplus', 'xorshift', 'xoroshiro128plus',
         'xoroshiro128starstar', 'xoshiro128plus', 'xoshiro128plusplus', 'xoshiro256plus', 'xoshiro256starstar', 'xoshiro512plus', 'xoshiro512plusplus', 'xoshiro512starstar']
SETS['api'] = [H('api_fillcex_' + n, 'C05 C14 C18', tier='fallback', timeout=1200, qual='api::api_fillcex_' + n,
                 bounded='n <= 20 bytes, arbitrary state', note='as api_fill_%s on the real multiplication (refutation only: fallback layer)' % n)
               for n in _FILL] + SETS['api']
SETS['api'] = [H('api_fill_' + n, 'C05 C14 C18', tier=('thorough' if n == 'xorshift' else 'manual'), timeout=1800, qual='api::api_fill_' + n, proof_only=True,
                 bounded='n <= 20 bytes (every tail length after 0, 1 and 2 full words), arbitrary state',
                 note='%s::fill_bytes(n) == n/8 next_u64, then one next_u64 / next_u32 truncated; generator left where the equivalent calls leave it' % n)
               for n in ['xoshiro128starstar', 'xoshiro256plusplus', 'xoroshiro128plusplus', 'xorshift', 'xoroshiro128plus',
                         'xoroshiro128starstar', 'xoshiro128plus', 'xoshiro128plusplus', 'xoshiro256plus', 'xoshiro256starstar']] + SETS['api']
# tier 'manual': in no tier.  The abstracted-multiplication variants proved in about 100 s each when they were written, but in the
# final thorough pass nine of them ran into the 30 min time-out / 14 GB cap when eight run side by side; a thorough check that cannot
# decide the unchanged tree is broken, so only the XorShift one (no multiplication) stays in the thorough tier.  Nothing proved is
# lost: they were bounded stand-ins (n <= 20); fill_bytes is proved generically by Verus, explored by diff:stream, and refuted where
# wrong by the api_fillcex_* variants of the fallback layer.
# (the three 512-bit generators reach the 14 GB address-space cap after 25 min in this harness; their fill_bytes is covered by the
#  generic Verus proof like everyone else's, by diff:stream, and by the api_fillcex_* refutation variants in the fallback layer)
