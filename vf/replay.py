"""Replay files and counterexample search for failed obligations."""
import json
import os
import time

ROOT = os.path.dirname(os.path.dirname(os.path.abspath(__file__)))
RDIR = os.path.join(ROOT, '.work', 'replay')


def write_violation(pid, ob, seed):
    os.makedirs(RDIR, exist_ok=True)
    safe = ob.id.replace('/', '_').replace(':', '_').replace('#', '_').replace('@', '_')
    path = os.path.join(RDIR, '%s-%s.json' % (pid, safe))
    rec = dict(property=pid, obligation=ob.id, function=ob.fn, kind=ob.kind, clause=ob.text, backend=ob.backend,
               verifier_output=[d.get('rendered') or d.get('message') for d in (ob.detail or [])],
               failing_input=None, written=time.strftime('%Y-%m-%dT%H:%M:%S'))
    has_input = False
    try:
        from . import cex
        ce = cex.search(pid, ob, seed)
        if ce:
            rec['failing_input'] = ce
            has_input = True
    except Exception as e:  # counterexample search is best effort
        rec['cex_search_error'] = repr(e)
    with open(path, 'w') as f:
        json.dump(rec, f, indent=1, default=str)
    return dict(path=path, has_input=has_input)


def run(pid, path):
    rec = json.load(open(path))
    print('replay of %s obligation %s' % (rec['property'], rec['obligation']))
    if rec.get('failing_input'):
        from . import cex
        return cex.replay(rec)
    print('no concrete input recorded (no-failing-input-found); verifier output:')
    for v in rec.get('verifier_output', []):
        print(v)
    return 1
