// C15: every step that updates the pool is a bijection of the pool; the LFSR fold is also one-to-one in the time value.
// All lemmas are over the spec functions the code is proved equal to (lfsr64 == jitter.lfsr.fold64, stir == jitter.stir_pool.spec,
// rotl(.,7) in measure == jitter.measure_jitter.spec).
pub mod lemmas {
use vstd::prelude::*;
use crate::shims::*;
use crate::spec::*;

// ---------------- LFSR fold: bijective in the pool for every fixed time ----------------
pub open spec fn rotr1(x: u64) -> u64 { (x >> 1u64) | (x << 63u64) }
// inverse of one LFSR step: undo the rotation, undo the six taps in reverse order, xor the time bit
pub open spec fn lfsr_unstep(y: u64, bit: u64) -> u64 {
    let d6 = rotr1(y);
    let d5 = d6 ^ ((d6 >> 22u64) & 1);
    let d4 = d5 ^ ((d5 >> 27u64) & 1);
    let d3 = d4 ^ ((d4 >> 30u64) & 1);
    let d2 = d3 ^ ((d3 >> 55u64) & 1);
    let d1 = d2 ^ ((d2 >> 60u64) & 1);
    let d0 = d1 ^ ((d1 >> 63u64) & 1);
    d0 ^ bit
}
pub proof fn lemma_step_unstep(d: u64, bit: u64)
    requires bit <= 1
    ensures lfsr_unstep(lfsr_step(d, bit), bit) == d, lfsr_step(lfsr_unstep(d, bit), bit) == d
{
    assert(lfsr_unstep(lfsr_step(d, bit), bit) == d) by (bit_vector) requires bit <= 1;
    assert(lfsr_step(lfsr_unstep(d, bit), bit) == d) by (bit_vector) requires bit <= 1;
}
// undo the last i steps of fold(., t, i)
pub open spec fn unfold(y: u64, t: u64, i: nat) -> u64 decreases i {
    if i == 0 { y } else { unfold(lfsr_unstep(y, tbit(t, (i - 1) as nat)), t, (i - 1) as nat) }
}
pub proof fn lemma_tbit(t: u64, i: nat) ensures tbit(t, i) <= 1
{ let ii = i as u64; assert(((t >> ii) & 1) <= 1) by (bit_vector); }
pub proof fn lemma_unfold_fold(d: u64, t: u64, i: nat)
    ensures unfold(fold(d, t, i), t, i) == d
    decreases i
{
    if i > 0 {
        lemma_tbit(t, (i - 1) as nat);
        lemma_step_unstep(fold(d, t, (i - 1) as nat), tbit(t, (i - 1) as nat));
        lemma_unfold_fold(d, t, (i - 1) as nat);
    }
}
pub proof fn lemma_fold_unfold(y: u64, t: u64, i: nat)
    ensures fold(unfold(y, t, i), t, i) == y
    decreases i
{
    if i > 0 {
        let b = tbit(t, (i - 1) as nat);
        lemma_tbit(t, (i - 1) as nat);
        lemma_fold_unfold(lfsr_unstep(y, b), t, (i - 1) as nat);
        lemma_step_unstep(y, b);
    }
}
// C15 (pool side): for every time value, d -> lfsr64(d, t) is a bijection of the 2^64 pool values
pub proof fn lemma_lfsr64_bijective_in_pool(t: u64)
    ensures forall |a: u64, b: u64| lfsr64(a, t) == lfsr64(b, t) ==> a == b,
            forall |y: u64| #[trigger] lfsr64(unfold(y, t, 64), t) == y
{
    assert forall |a: u64, b: u64| lfsr64(a, t) == lfsr64(b, t) implies a == b by { lemma_unfold_fold(a, t, 64); lemma_unfold_fold(b, t, 64); }
    assert forall |y: u64| #[trigger] lfsr64(unfold(y, t, 64), t) == y by { lemma_fold_unfold(y, t, 64); }
}

// ---------------- LFSR fold: injective in the time value for every fixed pool ----------------
// M(i) = bits 1..=i
pub open spec fn mask1(i: nat) -> u64 { if i >= 63 { 0xffff_ffff_ffff_fffeu64 } else { (((1u64 << ((i + 1) as u64)) - 2) as u64) } }
proof fn lemma_q_step(x: u64, y: u64, b: u64, c: u64, m: u64)
    requires b <= 1, c <= 1, m & 1 == 0, m >> 63u64 == 0, (x ^ y) & !m == 0
    ensures (lfsr_step(x, b) ^ lfsr_step(y, c)) & !((m << 1u64) | 2) == 0
{
    assert((lfsr_step(x, b) ^ lfsr_step(y, c)) & !((m << 1u64) | 2) == 0) by (bit_vector)
        requires b <= 1, c <= 1, m & 1 == 0, m >> 63u64 == 0, (x ^ y) & !m == 0;
}
proof fn lemma_q(d: u64, t: u64, u: u64, i: nat)
    requires i <= 63
    ensures (fold(d, t, i) ^ fold(d, u, i)) & !mask1(i) == 0
    decreases i
{
    if i == 0 {
        assert((d ^ d) & !((((1u64 << 1u64) - 2) as u64)) == 0) by (bit_vector);
    } else {
        let j = (i - 1) as nat;
        lemma_q(d, t, u, j);
        let m = mask1(j);
        let jj = j as u64;
        assert(jj <= 62 ==> ({ let m = ((1u64 << ((jj + 1) as u64)) - 2) as u64; m & 1 == 0 && m >> 63u64 == 0
              && ((m << 1u64) | 2) == (if jj + 1 >= 63 { 0xffff_ffff_ffff_fffeu64 } else { ((1u64 << ((jj + 2) as u64)) - 2) as u64 }) })) by (bit_vector);
        let bt = tbit(t, j); let bu = tbit(u, j);
        assert(((t >> jj) & 1) <= 1 && ((u >> jj) & 1) <= 1) by (bit_vector);
        lemma_q_step(fold(d, t, j), fold(d, u, j), bt, bu, m);
    }
}
proof fn lemma_step_inj2(d1: u64, b1: u64, d2: u64, b2: u64)
    requires b1 <= 1, b2 <= 1, lfsr_step(d1, b1) == lfsr_step(d2, b2)
    ensures d1 ^ b1 == d2 ^ b2
{
    assert(lfsr_step(d1, b1) == lfsr_step(d2, b2) ==> d1 ^ b1 == d2 ^ b2) by (bit_vector) requires b1 <= 1, b2 <= 1;
}
pub open spec fn low(i: nat) -> u64 { if i >= 64 { 0xffff_ffff_ffff_ffffu64 } else { ((1u64 << (i as u64)) - 1) as u64 } }
proof fn lemma_time_inj(d: u64, t: u64, u: u64, i: nat)
    requires i <= 64, fold(d, t, i) == fold(d, u, i)
    ensures (t ^ u) & low(i) == 0
    decreases i
{
    if i == 0 {
        assert((t ^ u) & (((1u64 << 0u64) - 1) as u64) == 0) by (bit_vector);
    } else {
        let j = (i - 1) as nat; let jj = j as u64;
        let x = fold(d, t, j); let y = fold(d, u, j);
        let bt = tbit(t, j); let bu = tbit(u, j);
        assert(((t >> jj) & 1) <= 1 && ((u >> jj) & 1) <= 1) by (bit_vector);
        lemma_step_inj2(x, bt, y, bu);
        lemma_q(d, t, u, j);
        let m = mask1(j);
        assert(jj <= 63 ==> ({ let m = if jj >= 63 { 0xffff_ffff_ffff_fffeu64 } else { ((1u64 << ((jj + 1) as u64)) - 2) as u64 }; m & 1 == 0 })) by (bit_vector);
        assert(bt <= 1 && bu <= 1 && m & 1 == 0 && (x ^ y) & !m == 0 && x ^ bt == y ^ bu ==> bt == bu && x == y) by (bit_vector);
        lemma_time_inj(d, t, u, j);
        assert(jj <= 63 && ((t >> jj) & 1) == ((u >> jj) & 1) && (t ^ u) & (if jj >= 64 { 0xffff_ffff_ffff_ffffu64 } else { ((1u64 << jj) - 1) as u64 }) == 0
            ==> (t ^ u) & (if jj + 1 >= 64 { 0xffff_ffff_ffff_ffffu64 } else { ((1u64 << ((jj + 1) as u64)) - 1) as u64 }) == 0) by (bit_vector);
    }
}
// C15 (time side): for every pool value, t -> lfsr64(d, t) is one-to-one: every bit of a delta influences the pool
pub proof fn lemma_lfsr64_injective_in_time(d: u64, t: u64, u: u64)
    requires lfsr64(d, t) == lfsr64(d, u)
    ensures t == u
{
    lemma_time_inj(d, t, u, 64);
    assert((t ^ u) & 0xffff_ffff_ffff_ffffu64 == 0 ==> t == u) by (bit_vector);
}

// ---------------- rotation ----------------
pub proof fn lemma_rotl7_bijective(x: u64)
    ensures rotl(rotl(x, 7), 57) == x, rotl(rotl(x, 57), 7) == x
{
    assert(((((x << 7u64) | (x >> 57u64)) << 57u64) | (((x << 7u64) | (x >> 57u64)) >> 7u64)) == x) by (bit_vector);
    assert(((((x << 57u64) | (x >> 7u64)) << 7u64) | (((x << 57u64) | (x >> 7u64)) >> 57u64)) == x) by (bit_vector);
}

// ---------------- stir: one-to-one ----------------
pub open spec fn lin(d: u64) -> u64 { d ^ mixer(d, 64) ^ mixer(0, 64) }
proof fn lemma_round_affine(x: u64, y: u64, z: u64, a: u64, b: u64, i: u64)
    requires i < 64
    ensures stir_round(x ^ y ^ z, a ^ b, i) == stir_round(x, a, i) ^ stir_round(y, b, i) ^ stir_round(z, 0, i)
{
    assert(stir_round(x ^ y ^ z, a ^ b, i) == stir_round(x, a, i) ^ stir_round(y, b, i) ^ stir_round(z, 0, i)) by (bit_vector) requires i < 64;
}
proof fn lemma_mixer_affine(a: u64, b: u64, i: nat)
    requires i <= 64
    ensures mixer(a ^ b, i) == mixer(a, i) ^ mixer(b, i) ^ mixer(0, i)
    decreases i
{
    if i == 0 {
        assert(0x98badcfe10325476u64 == 0x98badcfe10325476u64 ^ 0x98badcfe10325476u64 ^ 0x98badcfe10325476u64) by (bit_vector);
    } else {
        lemma_mixer_affine(a, b, (i - 1) as nat);
        lemma_round_affine(mixer(a, (i - 1) as nat), mixer(b, (i - 1) as nat), mixer(0, (i - 1) as nat), a, b, (i - 1) as u64);
    }
}
proof fn lemma_lin_linear(a: u64, b: u64)
    ensures lin(a ^ b) == lin(a) ^ lin(b)
{
    lemma_mixer_affine(a, b, 64);
    let ma = mixer(a, 64); let mb = mixer(b, 64); let m0 = mixer(0, 64); let mab = mixer(a ^ b, 64);
    assert(mab == ma ^ mb ^ m0 ==> (a ^ b) ^ mab ^ m0 == (a ^ ma ^ m0) ^ (b ^ mb ^ m0)) by (bit_vector);
}
proof fn lemma_stir_diff(a: u64, b: u64)
    ensures stir(a) ^ stir(b) == lin(a ^ b)
{
    lemma_mixer_affine(a, b, 64);
    let ma = mixer(a, 64); let mb = mixer(b, 64); let m0 = mixer(0, 64); let mab = mixer(a ^ b, 64);
    assert(mab == ma ^ mb ^ m0 ==> (a ^ ma) ^ (b ^ mb) == (a ^ b) ^ mab ^ m0) by (bit_vector);
}
pub open spec fn sel(y: u64, j: nat) -> u64 { if (y >> (j as u64)) & 1 == 1 { ninv(j) } else { 0u64 } }
pub open spec fn nmap(y: u64, k: nat) -> u64 decreases k {
    if k == 0 { 0u64 } else { nmap(y, (k - 1) as nat) ^ sel(y, (k - 1) as nat) }
}
proof fn lemma_nmap_linear(a: u64, b: u64, k: nat)
    requires k <= 64
    ensures nmap(a ^ b, k) == nmap(a, k) ^ nmap(b, k)
    decreases k
{
    if k == 0 {
        assert(0u64 == 0u64 ^ 0u64) by (bit_vector);
    } else {
        lemma_nmap_linear(a, b, (k - 1) as nat);
        let j = (k - 1) as u64;
        let c = ninv((k - 1) as nat);
        let sa = sel(a, (k - 1) as nat); let sb = sel(b, (k - 1) as nat); let sab = sel(a ^ b, (k - 1) as nat);
        assert(j < 64 ==> (if ((a ^ b) >> j) & 1 == 1 { c } else { 0u64 }) == (if (a >> j) & 1 == 1 { c } else { 0u64 }) ^ (if (b >> j) & 1 == 1 { c } else { 0u64 })) by (bit_vector);
        let p = nmap(a, (k - 1) as nat); let q = nmap(b, (k - 1) as nat);
        assert((p ^ q) ^ (sa ^ sb) == (p ^ sa) ^ (q ^ sb)) by (bit_vector);
    }
}
pub open spec fn comp(d: u64) -> u64 { nmap(lin(d), 64) }
proof fn lemma_comp_linear(a: u64, b: u64)
    ensures comp(a ^ b) == comp(a) ^ comp(b)
{
    lemma_lin_linear(a, b);
    lemma_nmap_linear(lin(a), lin(b), 64);
}
//@NINV@
proof fn lemma_comp_zero()
    ensures comp(0) == 0
{
    lemma_comp_linear(0, 0);
    let c = comp(0);
    assert(0u64 ^ 0u64 == 0u64) by (bit_vector);
    assert(c == c ^ c ==> c == 0) by (bit_vector);
}
proof fn lemma_comp_identity_below(d: u64, k: nat)
    requires k <= 64, k < 64 ==> d < (1u64 << (k as u64))
    ensures comp(d) == d
    decreases k
{
    if k == 0 {
        assert((1u64 << 0u64) == 1u64) by (bit_vector);
        lemma_comp_zero();
    } else {
        let kk = (k - 1) as u64;
        let e = 1u64 << kk;
        let lo = d & !e;
        assert(kk < 64 ==> (d & !(1u64 << kk)) < (1u64 << kk) || !((kk == 63) || d < (1u64 << ((kk + 1) as u64)))) by (bit_vector);
        assert(k - 1 < 64 ==> lo < (1u64 << kk));
        lemma_comp_identity_below(lo, (k - 1) as nat);
        if d & e != 0 {
            assert(kk < 64 && (d & (1u64 << kk)) != 0 ==> d == (d & !(1u64 << kk)) ^ (1u64 << kk)) by (bit_vector);
            lemma_comp_linear(lo, e);
            lemma_comp_basis_all();
        } else {
            assert(kk < 64 && (d & (1u64 << kk)) == 0 ==> d == (d & !(1u64 << kk))) by (bit_vector);
        }
    }
}
// C15 (stir): the final stir is one-to-one on the 2^64 pool values
pub proof fn lemma_stir_injective(a: u64, b: u64)
    requires stir(a) == stir(b)
    ensures a == b
{
    lemma_stir_diff(a, b);
    let d = a ^ b;
    let sa = stir(a); let sb = stir(b);
    assert(sa == sb ==> sa ^ sb == 0) by (bit_vector);
    assert(lin(d) == 0);
    lemma_comp_identity_below(d, 64);
    lemma_nmap_linear(0, 0, 64);
    let z = nmap(0, 64);
    assert(0u64 ^ 0u64 == 0u64) by (bit_vector);
    assert(z == z ^ z ==> z == 0) by (bit_vector);
    assert(d == 0);
    assert(a ^ b == 0 ==> a == b) by (bit_vector);
}
// C15 (whole measurement): for any time stamp, one measurement is one-to-one in the pool
pub proof fn lemma_measure_injective_in_pool(s1: Ms, s2: Ms, t: u64)
    requires s1.prev == s2.prev, s1.ld == s2.ld, s1.ld2 == s2.ld2, measure(s1, t).0.data == measure(s2, t).0.data
    ensures s1.data == s2.data
{
    let d = delta_of(t, s1.prev);
    let x1 = lfsr64(s1.data, d as u64); let x2 = lfsr64(s2.data, d as u64);
    lemma_rotl7_bijective(x1); lemma_rotl7_bijective(x2);
    lemma_lfsr64_bijective_in_pool(d as u64);
}
}
