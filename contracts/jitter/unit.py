"""Verus unit `jitter`: rand_jitter::JitterRng (C05, C12, C13, C14, C15, C16)."""
import os
import re

from vf.unit import Unit
from vf.rs import AnchorLost
from vf.weave import Fn, C, Loop, Insert, entry, before, after, tail, lit
from vf import dialect
from vf.common import rand_core_impls_rel_text, SHIMS

HERE = os.path.dirname(__file__)

PRE = '''use vstd::prelude::*;
use crate::shims::*;
use crate::rand_core::*;
use crate::spec::*;
use crate::rand_core::impls;
'''

FRAME = 'final(self).rounds == old(self).rounds && final(self).timer == old(self).timer && final(self).data_half_used == old(self).data_half_used'
WF = 'old(self).timer.requires(())'

MS_OF = 'Ms { data: %s.data, prev: %s.prev_time, ld: %s.last_delta, ld2: %s.last_delta2 }'


def ms(s, e):
    return MS_OF % (s, e, e, e)


MEAS_EQ = 'self.data == m.data && ec.prev_time == m.prev && ec.last_delta == m.ld && ec.last_delta2 == m.ld2'


TT_SPEC = '''
// ---- C13: test_timer over the log of the probes it performed ----
pub struct Probe { pub t: u64, pub t2: u64 }
pub open spec fn pdelta(p: Probe) -> i32 { delta_of(p.t2, p.t) }
// running statistics over the probes that are counted (the first 100 only warm the caches)
pub struct Tt { pub ld: i32, pub ld2: i32, pub old_delta: i32, pub delta_sum: nat, pub backwards: nat, pub cmod: nat, pub cstuck: nat }
pub open spec fn tt_step(s: Tt, p: Probe) -> Tt {
    let d = pdelta(p);
    let (st, ld, ld2) = stuck_of(s.ld, s.ld2, d);
    Tt { ld: ld, ld2: ld2, old_delta: d,
         delta_sum: s.delta_sum + abs_int(d as int - s.old_delta as int),
         backwards: s.backwards + (if p.t2 <= p.t { 1nat } else { 0nat }),
         cmod: s.cmod + (if d as int % 100 == 0 { 1nat } else { 0nat }),
         cstuck: s.cstuck + (if st { 1nat } else { 0nat }) }
}
pub open spec fn tt_stats(log: Seq<Probe>, k: nat) -> Tt decreases k {
    if k == 0 { Tt { ld: 0, ld2: 0, old_delta: 0, delta_sum: 0, backwards: 0, cmod: 0, cstuck: 0 } }
    else { let s = tt_stats(log, (k - 1) as nat); if k - 1 < 100 { s } else { tt_step(s, log[k - 1]) } }
}
pub proof fn lemma_tt_prefix(a: Seq<Probe>, b: Seq<Probe>, k: nat)
    requires k <= a.len() <= b.len(), forall |j: int| 0 <= j < a.len() ==> a[j] == b[j]
    ensures tt_stats(a, k) == tt_stats(b, k)
    decreases k
{ if k > 0 { lemma_tt_prefix(a, b, (k - 1) as nat); } }
pub open spec fn probe_ok(p: Probe) -> bool { p.t != 0 && p.t2 != 0 && pdelta(p) != 0 }
pub open spec fn zero_reading(log: Seq<Probe>) -> bool { exists |k: int| 0 <= k < log.len() && ((#[trigger] log[k]).t == 0 || log[k].t2 == 0) }
pub open spec fn zero_delta(log: Seq<Probe>) -> bool { exists |k: int| 0 <= k < log.len() && pdelta(#[trigger] log[k]) == 0 }
pub open spec fn mean_var(log: Seq<Probe>) -> nat { tt_stats(log, log.len()).delta_sum / 300 }
pub open spec fn cond_holds(e: TimerError, log: Seq<Probe>) -> bool {
    let s = tt_stats(log, log.len());
    match e {
        TimerError::NoTimer => zero_reading(log),
        TimerError::CoarseTimer => zero_delta(log) || (log.len() == 400 && s.cmod > 270),
        TimerError::NotMonotonic => log.len() == 400 && s.backwards > 3,
        // mean absolute change of the deltas so small that log2(mean)/2 credits zero bits per round (mean <= 1)
        TimerError::TinyVariations => log.len() == 400 && mean_var(log) < 2,
        TimerError::TooManyStuck => log.len() == 400 && s.cstuck > 270,
        TimerError::__Nonexhaustive => false,
    }
}
pub open spec fn any_failure(log: Seq<Probe>) -> bool {
    let s = tt_stats(log, log.len());
    zero_reading(log) || zero_delta(log) || s.backwards > 3 || mean_var(log) < 2 || s.cmod > 270 || s.cstuck > 270
}
pub open spec fn tt_post(log: Seq<Probe>, r: Result<u8, TimerError>) -> bool {
    log.len() <= 400 && match r {
        Ok(x) => log.len() == 400 && !any_failure(log) && 1 <= x <= 128 && mean_var(log) <= u64::MAX && x as nat * bitlen(mean_var(log) as u64) >= 128,
        Err(e) => cond_holds(e, log),
    }
}
'''


def build(features=()):
    u = Unit('jitter')
    cr = u.crate('rand_jitter', features=features)
    u.raw(open(os.path.join(SHIMS, 'std.rs')).read())
    rc = open(os.path.join(SHIMS, 'rand_core_rel.rs')).read()
    u.raw(rc.replace('//@IMPLS@', rand_core_impls_rel_text(u)))
    u.raw(open(os.path.join(HERE, 'spec.rs')).read())
    import importlib.util
    sp = importlib.util.spec_from_file_location('stir_inverse', os.path.join(HERE, '..', '..', 'tools', 'stir_inverse.py'))
    si = importlib.util.module_from_spec(sp)
    sp.loader.exec_module(si)
    u.lemma_file(open(os.path.join(HERE, 'lemmas.rs')).read().replace('//@NINV@', si.rust(si.compute())), 'C15', prefix='jitter.')
    u.raw('pub mod jitter {\n' + PRE)
    u.raw('// the error enum (discriminant values are irrelevant to every claimed property)\n'
          'pub mod error { pub enum TimerError { NoTimer, CoarseTimer, NotMonotonic, TinyVariations, TooManyStuck, __Nonexhaustive } }\npub use self::error::TimerError;')
    u.raw(TT_SPEC)
    for c in ('MEMORY_BLOCKS', 'MEMORY_BLOCKSIZE', 'MEMORY_SIZE'):
        u.item(cr, c)
    u.struct(cr, 'JitterRng')
    u.struct(cr, 'EcState')
    # D12: black_box is `unsafe { ptr::read_volatile }`: outside Verus; assumed to be the identity (T8)
    u.raw('#[verifier::external_body]\nfn black_box<T>(dummy: T) -> (r: T) ensures r == dummy { unimplemented!() }')
    u.skip('black_box', 'unsafe (ptr::read_volatile + mem::forget); assumed identity, T8')
    u.skip('Debug@JitterRng::fmt', 'formatting; C17 by Kani')
    u.skip('impl@JitterRng::new / platform::get_nstime', 'std feature, real clock, static JITTER_ROUNDS cache')

    # abstract view for the trait-level (relational) contracts
    u.raw('''
pub struct Jv { pub data: u64, pub half: bool, pub rounds: u8 }
// C12/C16: a fresh collection – `r` is the Jitterentropy result on some readings (t0 = first time stamp, ts = the
// time stamps of the measurements), the pending-half flag is cleared
pub open spec fn collected_dr(data: u64, rounds: u8, r: u64) -> bool {
    exists |t0: u64, ts: Seq<u64>| #[trigger] collect_ok(data, rounds as nat, t0, ts, r)
}
pub open spec fn collected(pre: Jv, r: u64) -> bool { collected_dr(pre.data, pre.rounds, r) }
impl<F> RelView for JitterRng<F> where F: Fn() -> u64 + Send + Sync {
    type V = Jv;
    open spec fn v(&self) -> Jv { Jv { data: self.data, half: self.data_half_used, rounds: self.rounds } }
    open spec fn wf(&self) -> bool { self.timer.requires(()) }
    // next_u64 always discards a pending half and collects afresh
    open spec fn r64(pre: Jv, r: u64, post: Jv) -> bool {
        post.data == r && !post.half && post.rounds == pre.rounds && collected(pre, r)
    }
    // next_u32: low half of a fresh collection, then – if immediately followed by next_u32 – the high half of the same value
    open spec fn r32(pre: Jv, r: u32, post: Jv) -> bool {
        post.rounds == pre.rounds && (
        if pre.half { post.data == pre.data && !post.half && r == (pre.data >> 32u64) as u32 }
        else { post.half && r == post.data as u32 && collected(pre, post.data) })
    }
}
// the first min(n, 8) bytes handed out are the little-endian bytes of a freshly collected 64-bit value
pub open spec fn fresh_first_word(pre: Jv, bytes: Seq<u8>) -> bool {
    let m = if bytes.len() < 8 { bytes.len() as int } else { 8 };
    exists |w: u64| #[trigger] collected(pre, w) && bytes.subrange(0, m) == le64(w).subrange(0, m)
}
impl<F> FillRelView for JitterRng<F> where F: Fn() -> u64 + Send + Sync {
    open spec fn rfill(pre: Jv, bytes: Seq<u8>, post: Jv) -> bool { fill_rel::<Self>(pre, bytes, post) }
}
''')

    # ---- EcState::stuck -------------------------------------------------------------------------------
    u.impl(cr, 'impl@EcState', header='impl EcState', fns=['stuck'], contracts={
        'stuck': Fn(None, ret='r', builtin_props='C14 C18', ensures=[
            C('jitter.stuck.spec', 'C12', '({ let (st, ld, ld2) = stuck_of(old(self).last_delta, old(self).last_delta2, current_delta); '
              'r == st && final(self).last_delta == ld && final(self).last_delta2 == ld2 })'),
            C('jitter.stuck.frame', 'C12', 'final(self).prev_time == old(self).prev_time')])})

    # ---- Clone ----------------------------------------------------------------------------------------
    u.impl(cr, 'Clone@JitterRng', header='impl<F> Clone for JitterRng<F> where F: Clone', fns=['clone'], contracts={
        'clone': Fn(None, ret='r', builtin_props='C14 C18', ensures=[
            C('jitter.clone.no_pending_half', 'C16', '!r.data_half_used'),
            C('jitter.clone.fields', 'C10 C16', 'r.data == self.data && r.rounds == self.rounds && r.mem_prev_index == self.mem_prev_index')])})

    ip = 'impl@JitterRng#2'
    cs = {}
    cs['new_with_timer'] = Fn(None, ret='r', builtin_props='C14 C18', ensures=[
        C('jitter.new_with_timer.init', 'C12 C16', 'r.data == 0 && r.rounds == 64 && r.mem_prev_index == 0 && !r.data_half_used && r.timer == timer')])
    cs['set_rounds'] = Fn(None, builtin_props='C14 C18',
                          requires=[C('jitter.set_rounds.documented_panic', '', 'rounds > 0')],
                          ensures=[C('jitter.set_rounds.sets', 'C12', 'final(self).rounds == rounds && final(self).data == old(self).data && final(self).timer == old(self).timer '
                                     '&& final(self).data_half_used == old(self).data_half_used && final(self).mem_prev_index == old(self).mem_prev_index')])
    cs['random_loop_cnt'] = Fn(None, ret='r', builtin_props='C14 C18',
                               requires=[C('jitter.random_loop_cnt.pre', '', WF + ' && n_bits == 4')],
                               ensures=[C('jitter.random_loop_cnt.frame', 'C12', '*final(self) == *old(self)'),
                                        C('jitter.random_loop_cnt.value', 'C12', 'r < 16 && exists |t: u64| r == #[trigger] loop_cnt(t, old(self).data)')],
                               loops={0: Loop(iter_name='it', invariants=[
                                   C('jitter.random_loop_cnt.inv', 'C12 C14', 'mask == 15 && folds == 16 && n_bits == 4 && rounds == fold4(x0, it.index@ as nat) && time == shr4(x0, it.index@ as nat) && rounds <= 15')])},
                               inserts=[after(lit('time ^= self.data;'), 'let ghost x0 = time; let ghost t_read = time ^ self.data;\n'
                                              'proof { let d = self.data; assert((x0 ^ d) ^ d == x0) by (bit_vector); }'),
                                        before(lit('let mask = (1 << n_bits) - 1;'), 'proof { assert((1u64 << 4u32) == 16u64) by (bit_vector); }'),
                                        before(lit('rounds ^= time & mask;'), 'proof { let rr = rounds; let tt = time; assert(rr <= 15 ==> (rr ^ (tt & 15)) <= 15) by (bit_vector); }'),
                                        tail('proof { assert(rounds as u32 == loop_cnt(t_read, self.data)); }')])
    u.nested(ip + '::lfsr_time::lfsr', Fn(None, ret='r', builtin_props='C14 C18',
                                           ensures=[C('jitter.lfsr.fold64', 'C12 C15', 'r == lfsr64(data, time)')],
                                           loops={0: Loop(invariants=[C('jitter.lfsr.inv', 'C12 C15', 'data == fold(d0, time, (i - 1) as nat)')])},
                                           inserts=[entry('let ghost d0 = data;'),
                                                    before(lit('let mut tmp = time << (64 - i);'),
                                                           'proof { let ii = i as u64; assert(1 <= ii <= 64 ==> ((time << ((64 - ii) as u64)) >> 63u64) == ((time >> ((ii - 1) as u64)) & 1)) by (bit_vector); }')]))
    cs['lfsr_time'] = Fn(None, builtin_props='C14 C18',
                         requires=[C('jitter.lfsr_time.pre', '', WF)],
                         ensures=[C('jitter.lfsr_time.fold', 'C12 C15', 'final(self).data == lfsr64(old(self).data, time)'),
                                  C('jitter.lfsr_time.frame', 'C12', FRAME + ' && final(self).mem_prev_index == old(self).mem_prev_index')],
                         loops={0: Loop(invariants=[C('jitter.lfsr_time.inv', 'C12 C14', '*self == *old(self)')])})
    cs['memaccess'] = Fn(None, builtin_props='C14 C18',
                         requires=[C('jitter.memaccess.pre', '', WF)],
                         ensures=[C('jitter.memaccess.frame', 'C12', FRAME + ' && final(self).data == old(self).data')],
                         loops={0: Loop(invariants=[C('jitter.memaccess.inv', 'C14', 'index <= 65535 && MEMORY_SIZE == 2048 && MEMORY_BLOCKSIZE == 32')])})
    cs['measure_jitter'] = Fn(None, ret='r', builtin_props='C14 C18',
                              requires=[C('jitter.measure_jitter.pre', '', WF)],
                              ensures=[C('jitter.measure_jitter.spec', 'C12 C15', 'exists |t: u64| ({ let (m, acc) = #[trigger] measure(%s, t); '
                                         'final(self).data == m.data && final(ec).prev_time == m.prev && final(ec).last_delta == m.ld && final(ec).last_delta2 == m.ld2 && r.is_some() == acc })' % ms('old(self)', 'old(ec)')),
                                       C('jitter.measure_jitter.frame', 'C12', FRAME)],
                              inserts=[before(lit('self.memaccess(&mut ec.mem, true);'), 'let ghost ms0 = %s;' % ms('self', 'ec')),
                                       before(lit('return None;'), 'proof { let _ = measure(ms0, time); }'),
                                       before(lit('Some(())'), 'proof { let _ = measure(ms0, time); }')])
    cs['stir_pool'] = Fn(None, builtin_props='C14 C18',
                         ensures=[C('jitter.stir_pool.spec', 'C12 C15', 'final(self).data == stir(old(self).data)'),
                                  C('jitter.stir_pool.frame', 'C12', FRAME + ' && final(self).mem_prev_index == old(self).mem_prev_index')],
                         loops={0: Loop(invariants=[C('jitter.stir_pool.inv', 'C12 C15', 'mixer == crate::spec::mixer(self.data, i as nat) && *self == *old(self)')])},
                         inserts=[before(lit('let apply = (self.data >> i) & 1;'),
                                         'proof { let d = self.data; let ii = i as u64; '
                                         'assert(ii < 64 ==> (!(((d >> ii) & 1).wrapping_sub(1))) == (if (d >> ii) & 1 == 1 { 0xffff_ffff_ffff_ffffu64 } else { 0u64 })) by (bit_vector); }')])
    run_inv = '({ let m = run(s1, us); %s })' % MEAS_EQ
    keep = 'self.timer.requires(()) && self.rounds == old(self).rounds && self.timer == old(self).timer && self.data_half_used == old(self).data_half_used'
    cs['gen_entropy'] = Fn(None, ret='r', builtin_props='C14 C18', attrs=['#[verifier::exec_allows_no_decreases_clause]'],
                           requires=[C('jitter.gen_entropy.pre', '', WF)],
                           ensures=[C('jitter.gen_entropy.collect', 'C12 C16', 'final(self).data == r && collected_dr(old(self).data, old(self).rounds, r)'),
                                    C('jitter.gen_entropy.frame', 'C12', FRAME)],
                           loops={0: Loop(iter_name='itn', invariants=[
                               C('jitter.gen_entropy.outer.keep', 'C12 C14', keep),
                               C('jitter.gen_entropy.outer.run', 'C12', run_inv),
                               C('jitter.gen_entropy.outer.accepted', 'C12 C16', 'accepted(s1, us) == itn.index@ as nat && (us.len() > 0 ==> measure(run(s1, us.drop_last()), us.last()).1)')]),
                                  1: Loop(except_break=[C('jitter.gen_entropy.inner.run', 'C12', run_inv)],
                                          invariants=[C('jitter.gen_entropy.inner.keep', 'C12 C14', keep),
                                                      C('jitter.gen_entropy.inner.accepted', 'C12', 'accepted(s1, us) == itn.index@ as nat')],
                                          ensures=[C('jitter.gen_entropy.inner.exit', 'C12', 'exists |t: u64| ({ let (m, acc) = #[trigger] measure(run(s1, us), t); acc && %s })' % MEAS_EQ)])},
                           inserts=[
                               after(r'let mut ec\s*=\s*EcState\s*\{[^}]*\};', 'let ghost t0 = ec.prev_time; let ghost s0 = Ms { data: self.data, prev: t0, ld: 0, ld2: 0 }; let ghost mut ts: Seq<u64> = Seq::empty();'),
                               before(lit('let _ = self.measure_jitter(&mut ec);'), 'let ghost pre = %s;' % ms('self', 'ec')),
                               after(lit('let _ = self.measure_jitter(&mut ec);'),
                                     'proof { let t = choose |t: u64| ({ let (m, acc) = #[trigger] measure(pre, t); %s }); ts = ts.push(t); assert(ts.drop_last() =~= Seq::<u64>::empty()); reveal_with_fuel(run, 2); }\n'
                                     'let ghost s1 = run(s0, ts); let ghost mut us: Seq<u64> = Seq::empty();' % MEAS_EQ),
                               # body of the (empty) inner while: a rejected measurement
                               Insert('loopbody', 1, 'proof { let pre2 = run(s1, us); let t = choose |t: u64| ({ let (m, acc) = #[trigger] measure(pre2, t); !acc && %s });\n'
                                      '  let us2 = us.push(t); assert(us2.drop_last() =~= us); us = us2; }' % MEAS_EQ),
                               Insert('afterloop', 1, 'proof { let pre2 = run(s1, us); let t = choose |t: u64| ({ let (m, acc) = #[trigger] measure(pre2, t); acc && %s });\n'
                                      '  let us2 = us.push(t); assert(us2.drop_last() =~= us); us = us2; }' % MEAS_EQ),
                               after(lit('self.stir_pool();'), 'proof { assert(collect_ok(old(self).data, old(self).rounds as nat, t0, ts + us, self.data)) by {\n'
                                     '  assert(ts.len() == 1); assert((ts + us).take(1) =~= ts); assert((ts + us).skip(1) =~= us); if us.len() > 0 { assert((ts + us).last() == us.last()); } } }'),
                           ])
    cs['timer_stats'] = Fn(None, ret='r', builtin_props='C14 C18',
                           requires=[C('jitter.timer_stats.pre', '', WF)],
                           ensures=[C('jitter.timer_stats.spec', 'C12', 'exists |t: u64, t2: u64| final(self).data == #[trigger] lfsr64(old(self).data, t) && r == #[trigger] t2.wrapping_sub(t) as i64'),
                                    C('jitter.timer_stats.frame', 'C12', FRAME)],
                           inserts=[tail('proof { let _ = lfsr64(old(self).data, time); let _ = time2.wrapping_sub(time); }')])
    stats_inv = ('({ let s = tt_stats(log, i_ as nat); ec.last_delta == s.ld && ec.last_delta2 == s.ld2 && old_delta == s.old_delta && delta_sum == s.delta_sum '
                 '&& time_backwards == s.backwards && count_mod == s.cmod && count_stuck == s.cstuck })')
    cs['test_timer'] = Fn(None, ret='r', builtin_props='C14 C18',
                          requires=[C('jitter.test_timer.pre', '', WF)],
                          ensures=[C('jitter.test_timer.post', 'C13', 'exists |log: Seq<Probe>| #[trigger] tt_post(log, r)'),
                                   C('jitter.test_timer.frame', 'C12', FRAME)],
                          loops={0: Loop(invariants=[
                              C('jitter.test_timer.inv.keep', 'C13 C14', 'self.timer.requires(()) && self.rounds == old(self).rounds && self.timer == old(self).timer && self.data_half_used == old(self).data_half_used '
                                '&& CLEARCACHE == 100 && TESTLOOPCOUNT == 300'),
                              C('jitter.test_timer.inv.log', 'C13', 'i_ <= 400 && log.len() == i_ && forall |k: int| 0 <= k < log.len() ==> probe_ok(#[trigger] log[k])'),
                              C('jitter.test_timer.inv.stats', 'C13', stats_inv),
                              C('jitter.test_timer.inv.bounds', 'C13 C14', 'delta_sum <= (if i_ <= 100 { 0 } else { (i_ - 100) * 0x1_0000_0000 }) && count_stuck <= i_ && count_mod <= i_ && 0 <= time_backwards <= i_'),
                          ], decreases='400 - i_')},
                          inserts=[
                              after(r'let mut ec\s*=\s*EcState\s*\{[^}]*\};', 'let ghost mut log: Seq<Probe> = Seq::empty();'),
                              # the probe is logged where it is read, so that the weave does not depend on the order of the checks that follow:
                              # a check moved behind the warm-up `continue` then fails inv.log (probe_ok) instead of losing a ghost variable
                              after(r'let time2\s*=\s*\(self\.timer\)\(\);', 'let ghost log0 = log; proof { log = log.push(Probe { t: time, t2: time2 }); assert(log.drop_last() =~= log0); }'),
                              before(lit('if time == 0 || time2 == 0 { return Err(TimerError::NoTimer); }'),
                                     'proof { if time == 0 || time2 == 0 { assert(log[log.len() - 1].t == 0 || log[log.len() - 1].t2 == 0); assert(@0@); } }', clauses=[C('jitter.test_timer.err_no_timer', 'C13', 'tt_post(log, Err(TimerError::NoTimer))')]),
                              before(lit('if delta == 0 { return Err(TimerError::CoarseTimer); }'),
                                     'proof { if delta == 0 { assert(pdelta(log[log.len() - 1]) == 0); assert(@0@); } }', clauses=[C('jitter.test_timer.err_zero_delta', 'C13', 'tt_post(log, Err(TimerError::CoarseTimer))')]),
                              before(lit('if i < CLEARCACHE { continue; }'),
                                     'proof { assert(probe_ok(log[log.len() - 1])); lemma_tt_prefix(log0, log, i as nat); reveal_with_fuel(tt_stats, 2); assert(log[i as int] == Probe { t: time, t2: time2 });\n'
                                     '  assert(tt_stats(log, (i + 1) as nat) == (if i < 100 { tt_stats(log, i as nat) } else { tt_step(tt_stats(log, i as nat), log[i as int]) })); }'),
                              before(lit('black_box(ec.mem[0]);'), 'proof { assert(log.len() == 400); }\nlet ghost st = tt_stats(log, 400);'),
                              before(lit('return Err(TimerError::NotMonotonic);'), 'proof { assert(@0@); }', clauses=[C('jitter.test_timer.err_not_monotonic', 'C13', 'tt_post(log, Err(TimerError::NotMonotonic))')]),
                              before(lit('return Err(TimerError::TinyVariations);'), 'proof { assert(@0@); }', clauses=[C('jitter.test_timer.err_tiny_variations', 'C13', 'tt_post(log, Err(TimerError::TinyVariations))')]),
                              before(lit('return Err(TimerError::CoarseTimer);'), 'proof { assert(@0@); }', occ=2, clauses=[C('jitter.test_timer.err_coarse_mod', 'C13', 'tt_post(log, Err(TimerError::CoarseTimer))')]),
                              before(lit('return Err(TimerError::TooManyStuck);'), 'proof { assert(@0@); }', clauses=[C('jitter.test_timer.err_too_many_stuck', 'C13', 'tt_post(log, Err(TimerError::TooManyStuck))')]),
                              after(lit('let delta_average = delta_sum / TESTLOOPCOUNT;'),
                                    'proof { assert(!zero_reading(log)); assert(!zero_delta(log)); assert(delta_average == mean_var(log)); lemma_bitlen_bounds(delta_average); }'),
                              after(lit('let log2 = 64 - delta_average.leading_zeros_v();'),
                                    'proof { let q = (128 + log2 as int - 1) / (log2 as int); assert(q * log2 >= 128 && q <= 26 && q >= 2) by (nonlinear_arith) requires 5 <= log2 <= 64, q == (128 + log2 as int - 1) / (log2 as int); '
                                    'assert(@0@); }', clauses=[C('jitter.test_timer.ok_log2', 'C13', 'tt_post(log, Ok(q as u8))')]),
                              after(r'let log2_lookup\s*=\s*\[[^\]]*\];', 'proof { reveal_with_fuel(bitlen, 6); assert(@0@); }', clauses=[C('jitter.test_timer.ok_table', 'C13', 'tt_post(log, Ok(log2_lookup[delta_average as int]))')]),
                          ])
    u.impl(cr, ip, header='impl<F> JitterRng<F> where F: Fn() -> u64 + Send + Sync',
           fns=['new_with_timer', 'set_rounds', 'random_loop_cnt', 'lfsr_time', 'memaccess', 'measure_jitter', 'stir_pool', 'gen_entropy', 'test_timer', 'timer_stats'], contracts=cs)

    # ---- RngCore ---------------------------------------------------------------------------------------
    rp = 'RngCore@JitterRng'
    W = ' where F: Fn() -> u64 + Send + Sync'
    u.impl(cr, rp, header='impl<F> Next64 for JitterRng<F>' + W, fns=['next_u64'], contracts={
        'next_u64': Fn(None, ret='r', builtin_props='C14 C18', trait_props='C05 C12 C16', ensures=[
            C('jitter.next_u64.fresh_collection', 'C12 C16', 'final(self).data == r && !final(self).data_half_used && collected(old(self).v(), r)'),
            C('jitter.next_u64.frame', 'C12', 'final(self).rounds == old(self).rounds && final(self).timer == old(self).timer')])})
    u.impl(cr, rp, header='impl<F> Next32 for JitterRng<F>' + W, fns=['next_u32'], contracts={
        'next_u32': Fn(None, ret='r', builtin_props='C14 C18', trait_props='C05 C12 C16', ensures=[
            C('jitter.next_u32.high_half_once', 'C05 C16', 'old(self).data_half_used ==> r == (old(self).data >> 32u64) as u32 && final(self).data == old(self).data && !final(self).data_half_used'),
            C('jitter.next_u32.low_half_fresh', 'C05 C12 C16', '!old(self).data_half_used ==> final(self).data_half_used && r == final(self).data as u32 && collected(old(self).v(), final(self).data)'),
            C('jitter.next_u32.frame', 'C12', 'final(self).rounds == old(self).rounds && final(self).timer == old(self).timer')])})
    u.impl(cr, rp, header='impl<F> Fill for JitterRng<F>' + W, fns=['fill_bytes'], contracts={
        'fill_bytes': Fn(None, builtin_props='C14 C18', trait_props='C05 C16', ensures=[
            # C16, stated literally: with a half pending, fill_bytes starts a fresh collection (its first word is a collected value)
            C('jitter.fill_bytes.discards_pending_half.len_ge_5', 'C16',
              'old(self).data_half_used && old(dest)@.len() >= 5 ==> fresh_first_word(old(self).v(), final(dest)@)'),
            C('jitter.fill_bytes.discards_pending_half.len_1_to_4', 'C16',
              'old(self).data_half_used && 1 <= old(dest)@.len() <= 4 ==> fresh_first_word(old(self).v(), final(dest)@)')],
            inserts=[Insert('end', None, 'proof { let pre = old(self).v(); let bytes = dest@; let n = bytes.len();\n'
                            '  if n >= 5 { assert(fill_rel::<Self>(pre, bytes, self.v()));\n'
                            '    let (ws, vs) = choose |ws: Seq<u64>, vs: Seq<Jv>| #[trigger] chain::<Self>(ws, vs) && vs[0] == pre && ws.len() == bytes.len() / 8\n'
                            '        && (forall |i: int| 0 <= i < ws.len() ==> bytes.subrange(8 * i, 8 * i + 8) == le64(#[trigger] ws[i]))\n'
                            '        && tail_rel::<Self>(vs.last(), bytes.subrange(8 * ws.len() as int, bytes.len() as int), self.v());\n'
                            '    if n >= 8 { let w = ws[0]; assert(Self::r64(vs[0], w, vs[1])); assert(bytes.subrange(0, 8) == le64(w)); assert(collected(pre, w)); assert(le64(w).subrange(0, 8) =~= le64(w));\n'
                            '                assert(fresh_first_word(pre, bytes)); }\n'
                            '    else { assert(ws.len() == 0); assert(vs.last() == vs[0]); let tb = bytes.subrange(0, n as int); assert(tb =~= bytes);\n'
                            '           let w = choose |w: u64| #[trigger] Self::r64(pre, w, self.v()) && tb == le64(w).subrange(0, tb.len() as int); assert(collected(pre, w)); lemma_le64_roundtrip(w);\n'
                            '           assert(fresh_first_word(pre, bytes)); } } }')])})
    u.raw('}')
    return u
