// Jitterentropy 2.1.0 collection procedure as documented in rand_jitter (and jitterentropy-base.c):
// jent_lfsr_time (64 steps of the LFSR x^64+x^61+x^56+x^31+x^28+x^23+1 over the time delta), jent_stuck,
// jent_measure_jitter (accepted measurements rotate the pool left by 7), jent_stir_pool, jent_gen_entropy.
pub mod spec {
use vstd::prelude::*;
use crate::shims::*;

pub open spec fn rotl(x: u64, n: u32) -> u64 { spec_rotl64(x, n) }

// one LFSR step: xor the time bit, fold taps 63,60,55,30,27,22 into bit 0, rotate left by 1
pub open spec fn lfsr_step(data: u64, bit: u64) -> u64 {
    let d0 = data ^ bit;
    let d1 = d0 ^ ((d0 >> 63u64) & 1);
    let d2 = d1 ^ ((d1 >> 60u64) & 1);
    let d3 = d2 ^ ((d2 >> 55u64) & 1);
    let d4 = d3 ^ ((d3 >> 30u64) & 1);
    let d5 = d4 ^ ((d4 >> 27u64) & 1);
    let d6 = d5 ^ ((d5 >> 22u64) & 1);
    rotl(d6, 1)
}
pub open spec fn tbit(t: u64, i: nat) -> u64 { (t >> (i as u64)) & 1 }
// the pool after folding bits 0..i of `t`
pub open spec fn fold(d: u64, t: u64, i: nat) -> u64 decreases i {
    if i == 0 { d } else { lfsr_step(fold(d, t, (i - 1) as nat), tbit(t, (i - 1) as nat)) }
}
pub open spec fn lfsr64(d: u64, t: u64) -> u64 { fold(d, t, 64) }

// loop counter: the 64-bit value folded into n_bits = 4 bits (16 folds of 4 bits, xor)
pub open spec fn shr4(x: u64, k: nat) -> u64 decreases k { if k == 0 { x } else { shr4(x, (k - 1) as nat) >> 4u64 } }
pub open spec fn fold4(x: u64, k: nat) -> u64 decreases k {
    if k == 0 { 0 } else { fold4(x, (k - 1) as nat) ^ (shr4(x, (k - 1) as nat) & 15) }
}
pub open spec fn loop_cnt(time: u64, data: u64) -> u32 { fold4(time ^ data, 16) as u32 }

// stir: mixer starts at 0x98badcfe10325476; for each bit i of the pool (LSB first): if set xor CONSTANT; rotate left 1
pub open spec fn stir_round(m: u64, d: u64, i: u64) -> u64 {
    let mask = if (d >> i) & 1 == 1 { 0xffff_ffff_ffff_ffffu64 } else { 0u64 };
    rotl(m ^ (0x67452301efcdab89u64 & mask), 1)
}
pub open spec fn mixer(d: u64, i: nat) -> u64 decreases i {
    if i == 0 { 0x98badcfe10325476u64 } else { stir_round(mixer(d, (i - 1) as nat), d, (i - 1) as u64) }
}
pub open spec fn stir(d: u64) -> u64 { d ^ mixer(d, 64) }

// measurement state: pool, previous time stamp, last delta, last second-order delta
pub struct Ms { pub data: u64, pub prev: u64, pub ld: i32, pub ld2: i32 }

pub open spec fn delta_of(t: u64, prev: u64) -> i32 { (t.wrapping_sub(prev)) as i64 as i32 }
pub open spec fn sub32(a: i32, b: i32) -> i32 {
    let d = a as int - b as int;
    if d > 0x7fff_ffff { (d - 0x1_0000_0000) as i32 } else if d < -0x8000_0000 { (d + 0x1_0000_0000) as i32 } else { d as i32 }
}
pub open spec fn stuck_of(ld: i32, ld2: i32, d: i32) -> (bool, i32, i32) {
    let d2 = sub32(ld, d);
    let d3 = sub32(d2, ld2);
    (d == 0 || d2 == 0 || d3 == 0, d, d2)
}
// one measurement on time stamp t: fold the (sign-extended) 32-bit delta, stuck test, accepted => rotate left 7
pub open spec fn measure(s: Ms, t: u64) -> (Ms, bool) {
    let d = delta_of(t, s.prev);
    let data1 = lfsr64(s.data, d as u64);
    let (stuck, ld, ld2) = stuck_of(s.ld, s.ld2, d);
    (Ms { data: if stuck { data1 } else { rotl(data1, 7) }, prev: t, ld: ld, ld2: ld2 }, !stuck)
}
pub open spec fn run(s: Ms, ts: Seq<u64>) -> Ms decreases ts.len() {
    if ts.len() == 0 { s } else { measure(run(s, ts.drop_last()), ts.last()).0 }
}
pub open spec fn accepted(s: Ms, ts: Seq<u64>) -> nat decreases ts.len() {
    if ts.len() == 0 { 0 } else { accepted(s, ts.drop_last()) + (if measure(run(s, ts.drop_last()), ts.last()).1 { 1nat } else { 0nat }) }
}
// jent_gen_entropy: prev := t0; one priming measurement (result ignored); then measurements until `rounds` were
// accepted, the last one accepted; stir; return the pool.
pub open spec fn collect_ok(data0: u64, rounds: nat, t0: u64, ts: Seq<u64>, r: u64) -> bool {
    let s0 = Ms { data: data0, prev: t0, ld: 0, ld2: 0 };
    let s1 = run(s0, ts.take(1));
    ts.len() >= 1 && accepted(s1, ts.skip(1)) == rounds
    && (ts.len() > 1 ==> measure(run(s1, ts.skip(1).drop_last()), ts.last()).1)
    && r == stir(run(s1, ts.skip(1)).data)
}
}
