"""Verus unit `hc128`: rand_hc::Hc128Core (C02, C10, C14)."""
import os
import re

from vf.unit import Unit
from vf.rs import AnchorLost
from vf.weave import Fn, C, Loop, Insert, entry, before, after, tail, lit
from vf import dialect
from vf.common import SHIMS

HERE = os.path.dirname(__file__)

PRE = '''use vstd::prelude::*;
use crate::shims::*;
use crate::rand_core::*;
use crate::rand_core::le;
use crate::rand_core::le::words32;
use crate::spec::*;
'''

RAND_CORE = '''
// ---- stand-ins for the rand_core items Hc128Core uses (D3) ----
pub mod rand_core {
use vstd::prelude::*;
// `core_inv` is the type invariant of the core (established by every constructor, preserved by generate); it is the only
// thing generate may require (C14)
pub trait BlockRngCore { type Item; type Results; spec fn core_inv(&self) -> bool;
    fn generate(&mut self, results: &mut Self::Results) requires old(self).core_inv() ensures final(self).core_inv(); }
pub trait SeedableRng: Sized { type Seed; fn from_seed(seed: Self::Seed) -> Self; }
pub mod le {
use vstd::prelude::*;
pub open spec fn words32(b: Seq<u8>) -> Seq<u32> {
    Seq::new((b.len() / 4) as nat, |i: int| crate::shims::from_le32(b.subrange(4 * i, 4 * i + 4)))
}
// T5 (assumed; Kani harness `read_u32_into_le` on the real rand_core)
#[verifier::external_body]
pub fn read_u32_into(src: &[u8], dst: &mut [u32])
    requires src@.len() >= 4 * old(dst)@.len()
    ensures final(dst)@ == words32(src@).subrange(0, old(dst)@.len() as int)
{ unimplemented!() }
}
}
'''


def step_calls(text, kind):
    """[(k, target, [A,B,C,D,E])] for the 16 calls `X = self.step_<kind>(A, B, C, D, E);` in textual order."""
    out = []
    for m in re.finditer(r'([A-Za-z_.\[\]0-9 +]+?)\s*=\s*self\.step_%s\(([^)]*)\);' % kind, text):
        args = [a.strip() for a in re.sub(r'\s+', ' ', m.group(2)).split(',')]
        out.append((m.group(1).strip(), args, m))
    return out


def call_pat(target, kind, args):
    return lit('%s = self.step_%s(%s);' % (target, kind, ', '.join(args))).replace(r'\ ', r'\s*')


def build(features=()):
    u = Unit('hc128')
    cr = u.crate('rand_hc', features=features)
    u.raw(open(os.path.join(SHIMS, 'std.rs')).read())
    u.raw(RAND_CORE)
    u.lemma_file(open(os.path.join(HERE, 'spec.rs')).read(), 'C02', prefix='hc128.')
    u.raw('pub mod hc128 {\n' + PRE)
    u.item(cr, 'hc128::SEED_WORDS')
    u.struct(cr, 'hc128::Hc128Core')

    idx_req = 'i < 512 && i511 < 512 && i3 < 512 && i10 < 512 && i12 < 512'
    cs = {}
    cs['step_p'] = Fn(None, ret='r', builtin_props='C14 C18',
                      requires=[C('hc128.step_p.idx', '', idx_req)],
                      ensures=[C('hc128.step_p.frame', 'C02', 'final(self).counter1024 == old(self).counter1024'),
                               C('hc128.step_p.table', 'C02', 'final(self).t@ == old(self).t@.update(i as int, upd_p(old(self).t@, i as int, i3 as int, i10 as int, i511 as int))'),
                               C('hc128.step_p.out', 'C02', 'r == h1(final(self).t@, final(self).t@[i12 as int]) ^ final(self).t@[i as int]')],
                      inserts=[entry('proof { reveal(upd_p); reveal(h1); }')])
    cs['step_q'] = Fn(None, ret='r', builtin_props='C14 C18',
                      requires=[C('hc128.step_q.idx', '', idx_req)],
                      ensures=[C('hc128.step_q.frame', 'C02', 'final(self).counter1024 == old(self).counter1024'),
                               C('hc128.step_q.table', 'C02', 'final(self).t@ == old(self).t@.update(512 + i as int, upd_q(old(self).t@, i as int, i3 as int, i10 as int, i511 as int))'),
                               C('hc128.step_q.out', 'C02', 'r == h2(final(self).t@, final(self).t@[512 + i12 as int]) ^ final(self).t@[512 + i as int]')],
                      inserts=[entry('proof { reveal(upd_q); reveal(h2); }')])

    idx_facts = ('proof {\n'
                 '  let c = self.counter1024;\n'
                 '  assert(c % 16 == 0 ==> (c % 512) % 16 == 0 && c % 512 <= 496) by (bit_vector);\n'
                 '  assert((c & 512 == 0) == (c % 1024 < 512)) by (bit_vector);\n'
                 '  assert(0usize.wrapping_sub(16) % 512 == 496) by (compute);\n'
                 '  assert(ee == eeof(cc as int)); assert(dd == (if cc == 496 { 0 } else { cc + 16 }));\n'
                 '}')

    # ---- generate -------------------------------------------------------------------------------------------
    gpath = 'hc128::BlockRngCore@Hc128Core::generate'
    gtext = u.fn_text(cr, gpath, Fn(gpath))
    ins = [entry('let ghost t0 = self.t@; let ghost c0 = self.counter1024 as nat; let ghost mut tp: Seq<u32> = self.t@; let ghost mut rp: Seq<u32> = results@;\n'
                 'proof { lemma_inv0(t0, c0, results@); }'),
           before(r'if self\.counter1024 & \d+ == 0', idx_facts)]
    for kind in ('p', 'q'):
        calls = step_calls(gtext, kind)
        if len(calls) != 16:
            raise AnchorLost('generate: expected 16 step_%s calls, found %d' % (kind, len(calls)))
        for k, (target, args, m) in enumerate(calls):
            pat = re.escape(m.group(0))
            pat = re.sub(r'(\\\s|\s)+', r'\\s*', pat)
            ins.append(before(pat, 'proof { tp = self.t@; rp = results@; }'))
            ins.append(after(pat, 'proof { lemma_adv_%s(t0, c0, %d, tp, rp, self.t@, results@, cc as int, %s); }' % (
                kind, k, ', '.join('(%s) as int' % a for a in args))))
    ins.append(before(r'self\.counter1024 = self\.counter1024[^;]*;\s*$', 'proof { lemma_inv_end(t0, c0, self.t@, results@); }'))
    gen = Fn(None, builtin_props='C14 C18',
             sig_rewrites=[(r'results: &mut Self::Results', 'results: &mut [u32; 16]')],
             ensures=[C('hc128.generate.counter', 'C02 C14', 'final(self).counter1024 == old(self).counter1024.wrapping_add(16) && final(self).counter1024 % 16 == 0'),
                      C('hc128.generate.table', 'C02', 'final(self).t@ == hc_steps(old(self).t@, old(self).counter1024 as nat, 16).0'),
                      C('hc128.generate.words', 'C02', 'forall |k: int| 0 <= k < 16 ==> final(results)@[k] == hc_steps(old(self).t@, old(self).counter1024 as nat, 16).1[k]')],
             inserts=ins + [before(r'self\.counter1024 = self\.counter1024[^;]*;\s*$',
                                   'proof { let c = self.counter1024; assert(usize::MAX == 0xffff_ffff || usize::MAX == 0xffff_ffff_ffff_ffff) by { assert(usize::BITS == 32 || usize::BITS == 64); }; assert(c.wrapping_add(16) % 16 == 0); }')])
    u.impl(cr, 'hc128::BlockRngCore@Hc128Core', header='impl BlockRngCore for Hc128Core', keep=['type Item', 'type Results'],
           extra='    open spec fn core_inv(&self) -> bool { self.counter1024 % 16 == 0 }',
           fns=['generate'], contracts={'generate': gen})

    # ---- sixteen_steps (initialisation variant) -------------------------------------------------------------
    spath = 'hc128::impl@Hc128Core::sixteen_steps'
    stext = u.fn_text(cr, spath, Fn(spath))
    ins = [entry('let ghost t0 = self.t@; let ghost c0 = self.counter1024 as nat; let ghost mut tp: Seq<u32> = self.t@;\n'
                 'proof { lemma_iinv0(t0, c0); }'),
           before(lit('if self.counter1024 < 512'), idx_facts.replace("  assert((c & 512 == 0) == (c % 1024 < 512)) by (bit_vector);\n", ''))]
    for kind in ('p', 'q'):
        calls = step_calls(stext, kind)
        if len(calls) != 16:
            raise AnchorLost('sixteen_steps: expected 16 step_%s calls, found %d' % (kind, len(calls)))
        for k, (target, args, m) in enumerate(calls):
            pat = re.escape(m.group(0))
            pat = re.sub(r'(\\\s|\s)+', r'\\s*', pat)
            ins.append(before(pat, 'proof { tp = self.t@; }'))
            ins.append(after(pat, 'proof { lemma_iadv_%s(t0, c0, %d, tp, self.t@, cc as int, %s); }' % (
                kind, k, ', '.join('(%s) as int' % a for a in args))))
    ins.append(before(lit('self.counter1024 += 16;'), 'proof { lemma_iinv_end(t0, c0, self.t@); }'))
    cs['sixteen_steps'] = Fn(None, builtin_props='C14 C18',
                             requires=[C('hc128.sixteen_steps.pre', '', 'old(self).counter1024 % 16 == 0 && old(self).counter1024 < 1024')],
                             ensures=[C('hc128.sixteen_steps.counter', 'C02', 'final(self).counter1024 == old(self).counter1024 + 16'),
                                      C('hc128.sixteen_steps.table', 'C02', 'final(self).t@ == init_steps(old(self).t@, old(self).counter1024 as nat, 16)')],
                             inserts=ins)

    # ---- init -----------------------------------------------------------------------------------------------
    u.nested('hc128::impl@Hc128Core::init::f1', Fn(None, ret='r', builtin_props='C14 C18', ensures=[C('hc128.f1', 'C02', 'r == f1s(x)')]))
    u.nested('hc128::impl@Hc128Core::init::f2', Fn(None, ret='r', builtin_props='C14 C18', ensures=[C('hc128.f2', 'C02', 'r == f2s(x)')]))
    cs['init'] = Fn(None, ret='r', builtin_props='C14 C18',
                    sig_rewrites=[(r'seed: \[u32; SEED_WORDS\]', 'seed: [u32; 8]')],
                    ensures=[C('hc128.init.counter', 'C02 C14', 'r.counter1024 == 0 && r.core_inv()'),
                             C('hc128.init.table', 'C02', 'r.t@ == hc128_init(seed@)')],
                    loops={0: Loop(invariants=[C('hc128.init.w_low', 'C02', 't@.len() == 1024 && forall |k: int| 0 <= k < i ==> #[trigger] t@[k] == w_at(seed@, k as nat)')]),
                           1: Loop(invariants=[C('hc128.init.w_high', 'C02', 't@.len() == 1024 && forall |k: int| 0 <= k < i ==> #[trigger] t@[k] == w_at(seed@, (256 + k) as nat)')]),
                           2: Loop(iter_name='itn', invariants=[C('hc128.init.warmup', 'C02', 'core.counter1024 == 16 * itn.index@ && core.t@ == init_steps(expand(seed@), 0, (16 * itn.index@) as nat)')])},
                    inserts=[before(r'for i in 16\.\.256 \+ 16', 'proof { assert(forall |k: int| 0 <= k < 16 ==> #[trigger] t@[k] == w_at(seed@, k as nat)); }'),
                             Insert('afterloop', 0, ';'),
                             before(r'for i in 16\.\.1024', 'proof { assert(forall |k: int| 0 <= k < 16 ==> #[trigger] t@[k] == w_at(seed@, (256 + k) as nat)); }'),
                             before(r'for _ in 0\.\.\d+', 'proof { assert(core.t@ =~= expand(seed@)); lemma_iunfold(expand(seed@), 0, 0); }'),
                             after(lit('core.sixteen_steps()'), ';\nproof { lemma_isplit(expand(seed@), (16 * itn.index@) as nat, 16); }')])
    u.impl(cr, 'hc128::impl@Hc128Core', header='impl Hc128Core', fns=['step_p', 'step_q', 'sixteen_steps', 'init'], contracts=cs)

    # ---- from_seed ------------------------------------------------------------------------------------------
    u.impl(cr, 'hc128::SeedableRng@Hc128Core', header='impl SeedableRng for Hc128Core', keep=['type Seed'], fns=['from_seed'], contracts={
        'from_seed': Fn(None, ret='r', builtin_props='C14 C18',
                        sig_rewrites=[(r'seed: Self::Seed', 'seed: [u8; 32]')],
                        ensures=[C('hc128.from_seed.init_of_le_words', 'C02 C09', 'r.counter1024 == 0 && r.core_inv() && r.t@ == hc128_init(words32(seed@))')],
                        inserts=[after(lit('le::read_u32_into(&seed, &mut seed_u32);'), 'proof { assert(seed_u32@ =~= words32(seed@)); }')])})

    # ---- Clone / PartialEq ----------------------------------------------------------------------------------
    u.impl(cr, 'hc128::Clone@Hc128Core', header='impl Clone for Hc128Core', fns=['clone'], contracts={
        'clone': Fn(None, ret='r', builtin_props='C14 C18', ensures=[C('hc128.core.clone.all_fields', 'C10', 'r.t@ =~= self.t@ && r.counter1024 == self.counter1024')])})
    u.raw('impl vstd::std_specs::cmp::PartialEqSpecImpl for Hc128Core {\n'
          '    open spec fn obeys_eq_spec() -> bool { true }\n'
          '    open spec fn eq_spec(&self, other: &Hc128Core) -> bool { self.t@ =~= other.t@ && self.counter1024 == other.counter1024 }\n}')
    u.impl(cr, 'hc128::PartialEq@Hc128Core', header='impl PartialEq for Hc128Core', fns=['eq'], contracts={
        'eq': Fn(None, ret='r', builtin_props='C14 C18', trait_props='C10', ensures=[
            C('hc128.core.eq.iff_all_fields', 'C10', 'r == (self.t@ =~= rhs.t@ && self.counter1024 == rhs.counter1024)')],
            inserts=[entry('proof { assert(self.t@.subrange(0, 1024) =~= self.t@); assert(rhs.t@.subrange(0, 1024) =~= rhs.t@); }')])})
    # Hc128Rng::eq over a stand-in for rand_core::block::BlockRng (pub field `core`, getter `index()`; T5)
    u.raw('''
// T5 stand-in: the two things Hc128Rng::eq uses of rand_core::block::BlockRng - the public field `core` and the read
// position `index()`.  (BlockRng's own behaviour is decided by the Kani harnesses blockrng_* on the real rand_core.)
pub struct BlockRng<R> { pub core: R, pub idx: usize }
impl<R> BlockRng<R> { pub fn index(&self) -> (r: usize) ensures r == self.idx { self.idx } }
pub struct Hc128Rng(pub BlockRng<Hc128Core>);
impl vstd::std_specs::cmp::PartialEqSpecImpl for Hc128Rng {
    open spec fn obeys_eq_spec() -> bool { true }
    open spec fn eq_spec(&self, other: &Hc128Rng) -> bool { self.0.core.t@ =~= other.0.core.t@ && self.0.core.counter1024 == other.0.core.counter1024 && self.0.idx == other.0.idx }
}''')
    u.impl(cr, 'hc128::PartialEq@Hc128Rng', header='impl PartialEq for Hc128Rng', fns=['eq'], contracts={
        'eq': Fn(None, ret='r', builtin_props='C14 C18', trait_props='C10', ensures=[
            C('hc128.rng.eq.core_and_index', 'C10', 'r == (self.0.core.t@ =~= rhs.0.core.t@ && self.0.core.counter1024 == rhs.0.core.counter1024 && self.0.idx == rhs.0.idx)')])})
    u.skip('hc128::Hc128Rng (RngCore, SeedableRng, Clone, Debug)', 'thin wrappers over rand_core::block::BlockRng (dependency code): Kani harnesses (C05, C09, C17)')
    u.skip('hc128::Debug@Hc128Core::fmt', 'formatting; C17 by Kani')
    u.raw('}')
    return u
