// HC-128 (Hongjun Wu, "The Stream Cipher HC-128", eSTREAM 2008), sections 2.1-2.3, over one table
// t = P || Q (P = t[0..512], Q = t[512..1024]).  Written from the paper, independently of /repo's code (T6).
pub mod spec {
use vstd::prelude::*;
use crate::shims::*;

pub open spec fn add32(a: u32, b: u32) -> u32 { a.wrapping_add(b) }
pub open spec fn rotr32(x: u32, n: u32) -> u32 { (x >> n) | (x << ((32 - n) as u32)) }   // x >>> n
pub open spec fn rotl32(x: u32, n: u32) -> u32 { (x << n) | (x >> ((32 - n) as u32)) }   // x <<< n
// f1(x) = (x>>>7) ^ (x>>>18) ^ (x>>3);  f2(x) = (x>>>17) ^ (x>>>19) ^ (x>>10)
pub open spec fn f1s(x: u32) -> u32 { rotr32(x, 7) ^ rotr32(x, 18) ^ (x >> 3u32) }
pub open spec fn f2s(x: u32) -> u32 { rotr32(x, 17) ^ rotr32(x, 19) ^ (x >> 10u32) }
// g1(x,y,z) = ((x>>>10) ^ (z>>>23)) + (y>>>8);  g2(x,y,z) = ((x<<<10) ^ (z<<<23)) + (y<<<8)
pub open spec fn g1(x: u32, y: u32, z: u32) -> u32 { add32(rotr32(x, 10) ^ rotr32(z, 23), rotr32(y, 8)) }
pub open spec fn g2(x: u32, y: u32, z: u32) -> u32 { add32(rotl32(x, 10) ^ rotl32(z, 23), rotl32(y, 8)) }
// h1(x) = Q[x0] + Q[256 + x2];  h2(x) = P[x0] + P[256 + x2]   (x0 = least significant byte, x2 = third byte)
pub open spec fn byte0(x: u32) -> int { (x & 0xff) as int }
pub open spec fn byte2(x: u32) -> int { ((x >> 16u32) & 0xff) as int }
pub open spec fn h1w(t: Seq<u32>, x: u32) -> u32 { add32(t[512 + byte0(x)], t[512 + 256 + byte2(x)]) }
pub open spec fn h2w(t: Seq<u32>, x: u32) -> u32 { add32(t[byte0(x)], t[256 + byte2(x)]) }
pub open spec fn sub512(j: int, k: int) -> int { (j + 512 - k) % 512 }                  // j [-] k

// one step of the keystream generation at step number c (section 2.3)
pub open spec fn wu_step(t: Seq<u32>, c: nat) -> (Seq<u32>, u32) {
    let j = (c % 512) as int;
    if c % 1024 < 512 {
        let pj = add32(t[j], g1(t[sub512(j, 3)], t[sub512(j, 10)], t[sub512(j, 511)]));
        let t2 = t.update(j, pj);
        (t2, h1w(t2, t2[sub512(j, 12)]) ^ t2[j])
    } else {
        let qj = add32(t[512 + j], g2(t[512 + sub512(j, 3)], t[512 + sub512(j, 10)], t[512 + sub512(j, 511)]));
        let t2 = t.update(512 + j, qj);
        (t2, h2w(t2, t2[512 + sub512(j, 12)]) ^ t2[512 + j])
    }
}
// ---- the same step in the association order of the code, with the pieces opaque (proof engineering: the 32
// unrolled calls of generate() only verify when these are not unfolded in the caller) ----
#[verifier::opaque]
pub open spec fn h1(t: Seq<u32>, x: u32) -> u32 { add32(t[512 + (x as u8) as int], t[512 + 256 + ((x >> 16u32) as u8) as int]) }
#[verifier::opaque]
pub open spec fn h2(t: Seq<u32>, x: u32) -> u32 { add32(t[(x as u8) as int], t[256 + ((x >> 16u32) as u8) as int]) }
#[verifier::opaque]
pub open spec fn upd_p(t: Seq<u32>, i: int, i3: int, i10: int, i511: int) -> u32 {
    add32(add32(t[i], rotr32(t[i10], 8)), rotr32(t[i511], 23) ^ rotr32(t[i3], 10)) }
#[verifier::opaque]
pub open spec fn upd_q(t: Seq<u32>, i: int, i3: int, i10: int, i511: int) -> u32 {
    add32(add32(t[512 + i], rotl32(t[512 + i10], 8)), rotl32(t[512 + i511], 23) ^ rotl32(t[512 + i3], 10)) }
pub open spec fn hc_step(t: Seq<u32>, c: nat) -> (Seq<u32>, u32) {
    let j = (c % 512) as int;
    if c % 1024 < 512 {
        let t2 = t.update(j, upd_p(t, j, sub512(j, 3), sub512(j, 10), sub512(j, 511)));
        (t2, h1(t2, t2[sub512(j, 12)]) ^ t2[j])
    } else {
        let t2 = t.update(512 + j, upd_q(t, j, sub512(j, 3), sub512(j, 10), sub512(j, 511)));
        (t2, h2(t2, t2[512 + sub512(j, 12)]) ^ t2[512 + j])
    }
}
// bridge: the code's association order equals Wu's definition
pub proof fn lemma_hc_step_is_wu(t: Seq<u32>, c: nat)
    requires t.len() == 1024
    ensures hc_step(t, c) == wu_step(t, c)
{
    reveal(h1); reveal(h2); reveal(upd_p); reveal(upd_q);
    let j = (c % 512) as int;
    assert forall |a: u32, b: u32, x: u32, z: u32| add32(add32(a, b), z ^ x) == add32(a, add32(x ^ z, b)) by {
        assert(a.wrapping_add(b).wrapping_add(z ^ x) == a.wrapping_add((x ^ z).wrapping_add(b))) by (bit_vector);
    }
    assert forall |x: u32| (x as u8) as int == byte0(x) && ((x >> 16u32) as u8) as int == byte2(x) by {
        assert((x as u8) as u32 == x & 0xff) by (bit_vector);
        assert(((x >> 16u32) as u8) as u32 == (x >> 16u32) & 0xff) by (bit_vector);
    }
    if c % 1024 < 512 {
        let a = t[j]; let b = rotr32(t[sub512(j, 10)], 8); let z = rotr32(t[sub512(j, 511)], 23); let x = rotr32(t[sub512(j, 3)], 10);
        assert(add32(add32(a, b), z ^ x) == add32(a, add32(x ^ z, b)));
    } else {
        let a = t[512 + j]; let b = rotl32(t[512 + sub512(j, 10)], 8); let z = rotl32(t[512 + sub512(j, 511)], 23); let x = rotl32(t[512 + sub512(j, 3)], 10);
        assert(add32(add32(a, b), z ^ x) == add32(a, add32(x ^ z, b)));
    }
}

// n keystream steps from step number c: final table and the n output words
#[verifier::opaque]
pub open spec fn hc_steps(t: Seq<u32>, c: nat, n: nat) -> (Seq<u32>, Seq<u32>) decreases n {
    if n == 0 { (t, Seq::empty()) } else {
        let (t1, outs) = hc_steps(t, c, (n - 1) as nat);
        let (t2, w) = hc_step(t1, c + (n - 1) as nat);
        (t2, outs.push(w))
    }
}
// the same, stated with Wu's step (what C02 is about); equal to hc_steps by lemma_hc_steps_is_wu
pub open spec fn wu_steps(t: Seq<u32>, c: nat, n: nat) -> (Seq<u32>, Seq<u32>) decreases n {
    if n == 0 { (t, Seq::empty()) } else {
        let (t1, outs) = wu_steps(t, c, (n - 1) as nat);
        let (t2, w) = wu_step(t1, c + (n - 1) as nat);
        (t2, outs.push(w))
    }
}
pub proof fn lemma_step_len(t: Seq<u32>, c: nat) requires t.len() == 1024 ensures hc_step(t, c).0.len() == 1024 { }
pub proof fn lemma_hc_steps_is_wu(t: Seq<u32>, c: nat, n: nat)
    requires t.len() == 1024
    ensures hc_steps(t, c, n) == wu_steps(t, c, n), hc_steps(t, c, n).0.len() == 1024
    decreases n
{
    reveal_with_fuel(hc_steps, 2);
    if n > 0 {
        lemma_hc_steps_is_wu(t, c, (n - 1) as nat);
        lemma_hc_step_is_wu(hc_steps(t, c, (n - 1) as nat).0, c + (n - 1) as nat);
    }
}
pub proof fn lemma_unfold(t: Seq<u32>, c: nat, k: nat)
    ensures hc_steps(t, c, k + 1) == ({ let (t1, outs) = hc_steps(t, c, k); let (t2, w) = hc_step(t1, c + k); (t2, outs.push(w)) }),
            hc_steps(t, c, k).1.len() == k
    decreases k
{ reveal_with_fuel(hc_steps, 2); if k > 0 { lemma_unfold(t, c, (k - 1) as nat); } }

#[verifier::opaque]
pub open spec fn inv(t0: Seq<u32>, c0: nat, k: nat, t: Seq<u32>, res: Seq<u32>) -> bool {
    &&& t.len() == 1024 && res.len() == 16 && k <= 16
    &&& hc_steps(t0, c0, k).0 == t
    &&& hc_steps(t0, c0, k).1.len() == k
    &&& forall |i: int| 0 <= i < k ==> res[i] == hc_steps(t0, c0, k).1[i]
}
pub proof fn lemma_inv0(t0: Seq<u32>, c0: nat, res: Seq<u32>)
    requires t0.len() == 1024, res.len() == 16
    ensures inv(t0, c0, 0, t0, res)
{ reveal(inv); reveal_with_fuel(hc_steps, 1); }
pub open spec fn eeof(cc: int) -> int { if cc >= 16 { cc - 16 } else { 496 } }
pub open spec fn bidx(cc: int, k: int, off: int) -> int { if k >= off { cc + k - off } else { eeof(cc) + 16 + k - off } }
pub open spec fn nidx(cc: int, k: int) -> int { if k < 15 { cc + k + 1 } else if cc == 496 { 0 } else { cc + 16 } }
pub proof fn lemma_idx(c0: nat, cc: int, k: int)
    requires c0 % 16 == 0, cc == c0 % 512, 0 <= k < 16
    ensures (c0 + k) % 512 == cc + k, ((c0 + k) % 1024 < 512) == (c0 % 1024 < 512), cc % 16 == 0, 0 <= cc <= 496,
        sub512(cc + k, 3) == bidx(cc, k, 3), sub512(cc + k, 10) == bidx(cc, k, 10), sub512(cc + k, 12) == bidx(cc, k, 12),
        sub512(cc + k, 511) == nidx(cc, k),
{
    assert(c0 % 16 == 0 && 0 <= k < 16 ==> (c0 + k) % 512 == c0 % 512 + k && ((c0 + k) % 1024 < 512) == (c0 % 1024 < 512) && (c0 % 512) % 16 == 0) by (nonlinear_arith);
}
pub proof fn lemma_adv_p(t0: Seq<u32>, c0: nat, k: nat, t: Seq<u32>, res: Seq<u32>, t2: Seq<u32>, res2: Seq<u32>, cc: int, i: int, i511: int, i3: int, i10: int, i12: int)
    requires inv(t0, c0, k, t, res), k < 16, c0 % 16 == 0, cc == c0 % 512, c0 % 1024 < 512, i == cc + k,
        i3 == bidx(cc, k as int, 3), i10 == bidx(cc, k as int, 10), i511 == nidx(cc, k as int), i12 == bidx(cc, k as int, 12),
        t2 =~= t.update(i, upd_p(t, i, i3, i10, i511)),
        res2 =~= res.update(k as int, h1(t2, t2[i12]) ^ t2[i]),
    ensures inv(t0, c0, k + 1, t2, res2)
{ reveal(inv); lemma_unfold(t0, c0, k); lemma_idx(c0, cc, k as int); }
pub proof fn lemma_adv_q(t0: Seq<u32>, c0: nat, k: nat, t: Seq<u32>, res: Seq<u32>, t2: Seq<u32>, res2: Seq<u32>, cc: int, i: int, i511: int, i3: int, i10: int, i12: int)
    requires inv(t0, c0, k, t, res), k < 16, c0 % 16 == 0, cc == c0 % 512, c0 % 1024 >= 512, i == cc + k,
        i3 == bidx(cc, k as int, 3), i10 == bidx(cc, k as int, 10), i511 == nidx(cc, k as int), i12 == bidx(cc, k as int, 12),
        t2 =~= t.update(512 + i, upd_q(t, i, i3, i10, i511)),
        res2 =~= res.update(k as int, h2(t2, t2[512 + i12]) ^ t2[512 + i]),
    ensures inv(t0, c0, k + 1, t2, res2)
{ reveal(inv); lemma_unfold(t0, c0, k); lemma_idx(c0, cc, k as int); }
pub proof fn lemma_inv_end(t0: Seq<u32>, c0: nat, t: Seq<u32>, res: Seq<u32>)
    requires inv(t0, c0, 16, t, res)
    ensures t == hc_steps(t0, c0, 16).0, forall |k: int| 0 <= k < 16 ==> res[k] == hc_steps(t0, c0, 16).1[k]
{ reveal(inv); }

// ---- initialisation (section 2.2): the output word replaces the table entry, 1024 steps ----
pub open spec fn init_step(t: Seq<u32>, c: nat) -> Seq<u32> { let (t2, w) = hc_step(t, c); t2.update((c % 1024) as int, w) }
#[verifier::opaque]
pub open spec fn init_steps(t: Seq<u32>, c: nat, n: nat) -> Seq<u32> decreases n {
    if n == 0 { t } else { init_step(init_steps(t, c, (n - 1) as nat), c + (n - 1) as nat) } }
pub open spec fn wu_init_step(t: Seq<u32>, c: nat) -> Seq<u32> { let (t2, w) = wu_step(t, c); t2.update((c % 1024) as int, w) }
pub open spec fn wu_init_steps(t: Seq<u32>, c: nat, n: nat) -> Seq<u32> decreases n {
    if n == 0 { t } else { wu_init_step(wu_init_steps(t, c, (n - 1) as nat), c + (n - 1) as nat) } }
pub proof fn lemma_init_steps_is_wu(t: Seq<u32>, c: nat, n: nat)
    requires t.len() == 1024
    ensures init_steps(t, c, n) == wu_init_steps(t, c, n), init_steps(t, c, n).len() == 1024
    decreases n
{
    reveal_with_fuel(init_steps, 2);
    if n > 0 {
        lemma_init_steps_is_wu(t, c, (n - 1) as nat);
        lemma_hc_step_is_wu(init_steps(t, c, (n - 1) as nat), c + (n - 1) as nat);
    }
}
pub proof fn lemma_iunfold(t: Seq<u32>, c: nat, k: nat)
    ensures init_steps(t, c, k + 1) == init_step(init_steps(t, c, k), c + k), init_steps(t, c, 0) == t
{ reveal_with_fuel(init_steps, 2); }
pub proof fn lemma_isplit(t: Seq<u32>, a: nat, b: nat)
    ensures init_steps(t, 0, a + b) == init_steps(init_steps(t, 0, a), a, b)
    decreases b
{ reveal_with_fuel(init_steps, 2); if b > 0 { lemma_isplit(t, a, (b - 1) as nat); lemma_iunfold(init_steps(t, 0, a), a, (b - 1) as nat); lemma_iunfold(t, 0, (a + b - 1) as nat); } }
#[verifier::opaque]
pub open spec fn iinv(t0: Seq<u32>, c0: nat, k: nat, t: Seq<u32>) -> bool { t.len() == 1024 && k <= 16 && init_steps(t0, c0, k) == t }
pub proof fn lemma_iinv0(t0: Seq<u32>, c0: nat) requires t0.len() == 1024 ensures iinv(t0, c0, 0, t0) { reveal(iinv); lemma_iunfold(t0, c0, 0); }
pub proof fn lemma_iadv_p(t0: Seq<u32>, c0: nat, k: nat, t: Seq<u32>, t2: Seq<u32>, cc: int, i: int, i511: int, i3: int, i10: int, i12: int)
    requires iinv(t0, c0, k, t), k < 16, c0 % 16 == 0, c0 < 512, cc == c0 % 512, i == cc + k,
        i3 == bidx(cc, k as int, 3), i10 == bidx(cc, k as int, 10), i511 == nidx(cc, k as int), i12 == bidx(cc, k as int, 12),
        ({ let t1 = t.update(i, upd_p(t, i, i3, i10, i511)); t2 =~= t1.update(i, h1(t1, t1[i12]) ^ t1[i]) }),
    ensures iinv(t0, c0, k + 1, t2)
{ reveal(iinv); lemma_iunfold(t0, c0, k); lemma_idx(c0, cc, k as int); }
pub proof fn lemma_iadv_q(t0: Seq<u32>, c0: nat, k: nat, t: Seq<u32>, t2: Seq<u32>, cc: int, i: int, i511: int, i3: int, i10: int, i12: int)
    requires iinv(t0, c0, k, t), k < 16, c0 % 16 == 0, 512 <= c0 < 1024, cc == c0 % 512, i == cc + k,
        i3 == bidx(cc, k as int, 3), i10 == bidx(cc, k as int, 10), i511 == nidx(cc, k as int), i12 == bidx(cc, k as int, 12),
        ({ let t1 = t.update(512 + i, upd_q(t, i, i3, i10, i511)); t2 =~= t1.update(512 + i, h2(t1, t1[512 + i12]) ^ t1[512 + i]) }),
    ensures iinv(t0, c0, k + 1, t2)
{ reveal(iinv); lemma_iunfold(t0, c0, k); lemma_idx(c0, cc, k as int); }
pub proof fn lemma_iinv_end(t0: Seq<u32>, c0: nat, t: Seq<u32>) requires iinv(t0, c0, 16, t) ensures t == init_steps(t0, c0, 16) { reveal(iinv); }

// key / IV expansion: W_i for 0 <= i <= 1279; seed words 0..3 = key, 4..7 = IV (K_{i+4} = K_i, IV_{i+4} = IV_i)
pub open spec fn w_at(seed: Seq<u32>, i: nat) -> u32 decreases i {
    if i < 4 { seed[i as int] } else if i < 8 { seed[i as int - 4] } else if i < 12 { seed[i as int - 4] } else if i < 16 { seed[i as int - 8] }
    else { add32(add32(add32(add32(f2s(w_at(seed, (i - 2) as nat)), w_at(seed, (i - 7) as nat)), f1s(w_at(seed, (i - 15) as nat))), w_at(seed, (i - 16) as nat)), i as u32) }
}
// P[i] = W[i + 256], Q[i] = W[i + 768]
pub open spec fn expand(seed: Seq<u32>) -> Seq<u32> { Seq::new(1024, |k: int| w_at(seed, (256 + k) as nat)) }
// the table after initialisation (C02: Hc128Core::from_seed), and the keystream
pub open spec fn hc128_init(seed: Seq<u32>) -> Seq<u32> { init_steps(expand(seed), 0, 1024) }
}
