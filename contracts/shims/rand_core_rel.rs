// ---- stand-in declarations for rand_core 0.9, relational flavour (generators whose output depends on an
// external reading, i.e. JitterRng): the trait-level contracts relate (state before, result, state after). ----
pub mod rand_core {
use vstd::prelude::*;
use crate::shims::*;

pub trait RelView: Sized {
    type V;
    spec fn v(&self) -> Self::V;
    spec fn wf(&self) -> bool;          // type invariant carried by every operation (T10: the timer is total)
    spec fn r32(pre: Self::V, r: u32, post: Self::V) -> bool;
    spec fn r64(pre: Self::V, r: u64, post: Self::V) -> bool;
}
pub trait FillRelView: RelView {
    spec fn rfill(pre: Self::V, bytes: Seq<u8>, post: Self::V) -> bool;
}
pub trait Next32: RelView {
    fn next_u32(&mut self) -> (r: u32)
        requires old(self).wf(),
        ensures final(self).wf(), /*@<trait.next_u32.rel*/ Self::r32(old(self).v(), r, final(self).v()) /*@>*/;
}
pub trait Next64: RelView {
    fn next_u64(&mut self) -> (r: u64)
        requires old(self).wf(),
        ensures final(self).wf(), /*@<trait.next_u64.rel*/ Self::r64(old(self).v(), r, final(self).v()) /*@>*/;
}
pub trait Fill: FillRelView {
    fn fill_bytes(&mut self, dest: &mut [u8])
        requires old(self).wf(),
        ensures final(self).wf(), final(dest)@.len() == old(dest)@.len(),
                /*@<trait.fill_bytes.rel*/ Self::rfill(old(self).v(), final(dest)@, final(self).v()) /*@>*/;
}
pub trait RngCore: Next32 + Next64 + Fill {}

// n/8 next_u64 results (a chain of states), then one next_u64 (tail 5..7) or one next_u32 (tail 1..4), LE, truncated
pub open spec fn chain<R: RelView>(ws: Seq<u64>, vs: Seq<R::V>) -> bool {
    vs.len() == ws.len() + 1 && forall |i: int| 0 <= i < ws.len() ==> R::r64(vs[i], #[trigger] ws[i], vs[i + 1])
}
pub open spec fn tail_rel<R: RelView>(v: R::V, tb: Seq<u8>, v1: R::V) -> bool {
    if tb.len() > 4 { exists |w: u64| #[trigger] R::r64(v, w, v1) && tb == le64(w).subrange(0, tb.len() as int) }
    else if tb.len() > 0 { exists |w: u32| #[trigger] R::r32(v, w, v1) && tb == le32(w).subrange(0, tb.len() as int) }
    else { v1 == v }
}
pub open spec fn fill_rel<R: RelView>(v0: R::V, bytes: Seq<u8>, v1: R::V) -> bool {
    exists |ws: Seq<u64>, vs: Seq<R::V>| #[trigger] chain::<R>(ws, vs) && vs[0] == v0 && ws.len() == bytes.len() / 8
        && (forall |i: int| 0 <= i < ws.len() ==> bytes.subrange(8 * i, 8 * i + 8) == le64(#[trigger] ws[i]))
        && tail_rel::<R>(vs.last(), bytes.subrange(8 * ws.len() as int, bytes.len() as int), v1)
}

pub mod impls {
use vstd::prelude::*;
use crate::shims::*;
use super::*;
//@IMPLS@
}
}
