// ---- stand-in declarations for rand_core 0.9 (DESIGN §3.2 D3, §4 T5) ----
// `RngCore` is split by method (Verus' trait-cycle check forbids an impl method from calling a generic
// function bounded by the trait being implemented); every generator defines its abstract state `V`
// and the spec functions s32/s64/sfill, and its exec methods must satisfy the trait-level contracts.
pub mod rand_core {
use vstd::prelude::*;
use crate::shims::*;

pub trait RngView: Sized {
    type V;
    spec fn v(&self) -> Self::V;
    spec fn s32(v: Self::V) -> (u32, Self::V);
    spec fn s64(v: Self::V) -> (u64, Self::V);
}
pub trait FillView: RngView {
    spec fn sfill(v: Self::V, n: nat) -> (Seq<u8>, Self::V);
}
pub trait Next32: RngView {
    fn next_u32(&mut self) -> (r: u32)
        ensures /*@<trait.next_u32.value*/ r == Self::s32(old(self).v()).0 /*@>*/,
                /*@<trait.next_u32.state*/ final(self).v() == Self::s32(old(self).v()).1 /*@>*/;
}
pub trait Next64: RngView {
    fn next_u64(&mut self) -> (r: u64)
        ensures /*@<trait.next_u64.value*/ r == Self::s64(old(self).v()).0 /*@>*/,
                /*@<trait.next_u64.state*/ final(self).v() == Self::s64(old(self).v()).1 /*@>*/;
}
pub trait Fill: FillView {
    fn fill_bytes(&mut self, dest: &mut [u8])
        ensures /*@<trait.fill_bytes.value*/ final(dest)@ == Self::sfill(old(self).v(), old(dest)@.len()).0 /*@>*/,
                /*@<trait.fill_bytes.state*/ final(self).v() == Self::sfill(old(self).v(), old(dest)@.len()).1 /*@>*/;
}
pub trait RngCore: Next32 + Next64 + Fill {}

// (second << 32) | first
pub open spec fn via_u32<R: RngView>(v: R::V) -> (u64, R::V) {
    let (x, v1) = R::s32(v);
    let (y, v2) = R::s32(v1);
    ((((y as u64) << 32u64) | (x as u64)), v2)
}
// n/8 next_u64 results, then one next_u64 (tail 5..7) or one next_u32 (tail 1..4), little-endian, truncated
pub open spec fn fill_via_next<R: RngView>(v: R::V, n: nat) -> (Seq<u8>, R::V)
    decreases n
{
    if n >= 8 {
        let (w, v1) = R::s64(v);
        let (rest, v2) = fill_via_next::<R>(v1, (n - 8) as nat);
        (le64(w) + rest, v2)
    } else if n > 4 {
        let (w, v1) = R::s64(v);
        (le64(w).subrange(0, n as int), v1)
    } else if n > 0 {
        let (w, v1) = R::s32(v);
        (le32(w).subrange(0, n as int), v1)
    } else { (Seq::empty(), v) }
}

// spec-only: what a seed means for this generator
pub trait SeedView: RngView {
    spec fn seed_len() -> nat;
    spec fn from_seed_v(b: Seq<u8>) -> Self::V;
    spec fn seed_from_u64_v(x: u64) -> Self::V;
}
pub trait SeedableRng: SeedView {
    type Seed;
    spec fn seed_bytes(s: Self::Seed) -> Seq<u8>;
    fn from_seed(seed: Self::Seed) -> (r: Self)
        requires Self::seed_bytes(seed).len() == Self::seed_len(),
        ensures /*@<trait.from_seed*/ r.v() == Self::from_seed_v(Self::seed_bytes(seed)) /*@>*/;
    fn seed_from_u64(x: u64) -> (r: Self)
        ensures /*@<trait.seed_from_u64*/ r.v() == Self::seed_from_u64_v(x) /*@>*/;
}
// T5 (assumed; Kani harness `from_rng_default` on the real rand_core): SeedableRng's provided from_rng draws exactly
// one seed's worth of bytes with one fill_bytes call and passes them to from_seed.  A generator gets this trait
// only if its `impl SeedableRng` in /repo does not override from_rng (checked by the unit builder).
pub trait FromRngDefault: SeedView {
    #[verifier::external_body]
    fn from_rng<R: Fill>(rng: &mut R) -> (r: Self)
        ensures r.v() == Self::from_seed_v(R::sfill(old(rng).v(), Self::seed_len()).0),
                final(rng).v() == R::sfill(old(rng).v(), Self::seed_len()).1,
    { unimplemented!() }
}
// generators that override from_rng / try_from_rng: no trait-level contract, the woven contract is on the impl
pub trait FromRng: Sized {
    fn from_rng<R: Fill>(rng: &mut R) -> Self;
    fn try_from_rng<R: TryFill>(rng: &mut R) -> Result<Self, R::Error>;
}
// fallible byte source (rand_core::TryRngCore::try_fill_bytes): deterministic in its abstract state;
// on Err the destination contents are unspecified
pub trait TryFill: Sized {
    type TV;
    type Error;
    spec fn tv(&self) -> Self::TV;
    spec fn stry(v: Self::TV, n: nat) -> (Result<Seq<u8>, Self::Error>, Self::TV);
    fn try_fill_bytes(&mut self, dest: &mut [u8]) -> (r: Result<(), Self::Error>)
        ensures final(self).tv() == Self::stry(old(self).tv(), old(dest)@.len()).1,
                final(dest)@.len() == old(dest)@.len(),
                match r {
                    Ok(()) => Self::stry(old(self).tv(), old(dest)@.len()).0 == Ok::<Seq<u8>, Self::Error>(final(dest)@),
                    Err(e) => Self::stry(old(self).tv(), old(dest)@.len()).0 == Err::<Seq<u8>, Self::Error>(e),
                };
}

pub mod le {
use vstd::prelude::*;
pub open spec fn words64(b: Seq<u8>) -> Seq<u64> {
    Seq::new((b.len() / 8) as nat, |i: int| crate::shims::from_le64(b.subrange(8 * i, 8 * i + 8)))
}
pub open spec fn words32(b: Seq<u8>) -> Seq<u32> {
    Seq::new((b.len() / 4) as nat, |i: int| crate::shims::from_le32(b.subrange(4 * i, 4 * i + 4)))
}
pub proof fn lemma_words32_zero(b: Seq<u8>) requires b.len() % 4 == 0
    ensures crate::shims::all_zero(b) == (forall |i: int| 0 <= i < words32(b).len() ==> words32(b)[i] == 0)
{
    use crate::shims::*;
    if all_zero(b) {
        assert forall |i: int| 0 <= i < words32(b).len() implies words32(b)[i] == 0 by { lemma_from_le32_zero(b.subrange(4 * i, 4 * i + 4)); }
    }
    if forall |i: int| 0 <= i < words32(b).len() ==> words32(b)[i] == 0 {
        assert forall |k: int| 0 <= k < b.len() implies b[k] == 0 by {
            let i = k / 4; assert(words32(b)[i] == 0); lemma_from_le32_zero(b.subrange(4 * i, 4 * i + 4));
            assert(b[k] == b.subrange(4 * i, 4 * i + 4)[k - 4 * i]);
        }
    }
}
pub proof fn lemma_words64_zero(b: Seq<u8>) requires b.len() % 8 == 0
    ensures crate::shims::all_zero(b) == (forall |i: int| 0 <= i < words64(b).len() ==> words64(b)[i] == 0)
{
    use crate::shims::*;
    if all_zero(b) {
        assert forall |i: int| 0 <= i < words64(b).len() implies words64(b)[i] == 0 by { lemma_from_le64_zero(b.subrange(8 * i, 8 * i + 8)); }
    }
    if forall |i: int| 0 <= i < words64(b).len() ==> words64(b)[i] == 0 {
        assert forall |k: int| 0 <= k < b.len() implies b[k] == 0 by {
            let i = k / 8; assert(words64(b)[i] == 0); lemma_from_le64_zero(b.subrange(8 * i, 8 * i + 8));
            assert(b[k] == b.subrange(8 * i, 8 * i + 8)[k - 8 * i]);
        }
    }
}
// T5 (assumed; Kani harnesses `read_u64_into_le`, `read_u32_into_le` on the real rand_core)
#[verifier::external_body]
pub fn read_u64_into(src: &[u8], dst: &mut [u64])
    requires src@.len() >= 8 * old(dst)@.len()
    ensures final(dst)@ == words64(src@).subrange(0, old(dst)@.len() as int)
{ unimplemented!() }
#[verifier::external_body]
pub fn read_u32_into(src: &[u8], dst: &mut [u32])
    requires src@.len() >= 4 * old(dst)@.len()
    ensures final(dst)@ == words32(src@).subrange(0, old(dst)@.len() as int)
{ unimplemented!() }
}

pub mod impls {
use vstd::prelude::*;
use crate::shims::*;
use super::*;
//@IMPLS@
}
}
