// ---- stand-in declarations for rand_core 0.9 (DESIGN §3.2 D3, §4 T5) ----
// `RngCore` is split by method (Verus' trait-cycle check forbids an impl method from calling a generic
// function bounded by the trait being implemented); every generator defines its abstract state `V`
// and the spec functions s32/s64/sfill, and its exec methods must satisfy the trait-level contracts.
pub mod rand_core {
use vstd::prelude::*;
use crate::shims::*;

pub trait RngView: Sized {
    type V;
    spec fn v(&self) -> Self::V;
    spec fn s32(v: Self::V) -> (u32, Self::V);
    spec fn s64(v: Self::V) -> (u64, Self::V);
}
pub trait FillView: RngView {
    spec fn sfill(v: Self::V, n: nat) -> (Seq<u8>, Self::V);
}
pub trait Next32: RngView {
    fn next_u32(&mut self) -> (r: u32)
        ensures /*@<trait.next_u32.value*/ r == Self::s32(old(self).v()).0 /*@>*/,
                /*@<trait.next_u32.state*/ final(self).v() == Self::s32(old(self).v()).1 /*@>*/;
}
pub trait Next64: RngView {
    fn next_u64(&mut self) -> (r: u64)
        ensures /*@<trait.next_u64.value*/ r == Self::s64(old(self).v()).0 /*@>*/,
                /*@<trait.next_u64.state*/ final(self).v() == Self::s64(old(self).v()).1 /*@>*/;
}
pub trait Fill: FillView {
    fn fill_bytes(&mut self, dest: &mut [u8])
        ensures /*@<trait.fill_bytes.value*/ final(dest)@ == Self::sfill(old(self).v(), old(dest)@.len()).0 /*@>*/,
                /*@<trait.fill_bytes.state*/ final(self).v() == Self::sfill(old(self).v(), old(dest)@.len()).1 /*@>*/;
}
pub trait RngCore: Next32 + Next64 + Fill {}

// (second << 32) | first
pub open spec fn via_u32<R: RngView>(v: R::V) -> (u64, R::V) {
    let (x, v1) = R::s32(v);
    let (y, v2) = R::s32(v1);
    ((((y as u64) << 32u64) | (x as u64)), v2)
}
// n/8 next_u64 results, then one next_u64 (tail 5..7) or one next_u32 (tail 1..4), little-endian, truncated
pub open spec fn fill_via_next<R: RngView>(v: R::V, n: nat) -> (Seq<u8>, R::V)
    decreases n
{
    if n >= 8 {
        let (w, v1) = R::s64(v);
        let (rest, v2) = fill_via_next::<R>(v1, (n - 8) as nat);
        (le64(w) + rest, v2)
    } else if n > 4 {
        let (w, v1) = R::s64(v);
        (le64(w).subrange(0, n as int), v1)
    } else if n > 0 {
        let (w, v1) = R::s32(v);
        (le32(w).subrange(0, n as int), v1)
    } else { (Seq::empty(), v) }
}

pub trait SeedableRng: RngView {
    type Seed;
    spec fn seed_bytes(s: Self::Seed) -> Seq<u8>;
    spec fn seed_len() -> nat;
    spec fn from_seed_v(b: Seq<u8>) -> Self::V;
    spec fn seed_from_u64_v(x: u64) -> Self::V;
    fn from_seed(seed: Self::Seed) -> (r: Self)
        requires Self::seed_bytes(seed).len() == Self::seed_len(),
        ensures /*@<trait.from_seed*/ r.v() == Self::from_seed_v(Self::seed_bytes(seed)) /*@>*/;
    fn seed_from_u64(x: u64) -> (r: Self)
        ensures /*@<trait.seed_from_u64*/ r.v() == Self::seed_from_u64_v(x) /*@>*/;
    // T5 (assumed; Kani harness `from_rng_default` on the real rand_core): the provided method draws exactly
    // one seed's worth of bytes with one fill_bytes call and passes them to from_seed.
    #[verifier::external_body]
    fn from_rng<R: Fill>(rng: &mut R) -> (r: Self)
        ensures r.v() == Self::from_seed_v(R::sfill(old(rng).v(), Self::seed_len()).0),
                final(rng).v() == R::sfill(old(rng).v(), Self::seed_len()).1,
    { unimplemented!() }
}

pub mod le {
use vstd::prelude::*;
pub open spec fn words64(b: Seq<u8>) -> Seq<u64> {
    Seq::new((b.len() / 8) as nat, |i: int| vstd::bytes::spec_u64_from_le_bytes(b.subrange(8 * i, 8 * i + 8)))
}
pub open spec fn words32(b: Seq<u8>) -> Seq<u32> {
    Seq::new((b.len() / 4) as nat, |i: int| vstd::bytes::spec_u32_from_le_bytes(b.subrange(4 * i, 4 * i + 4)))
}
// T5 (assumed; Kani harnesses `read_u64_into_le`, `read_u32_into_le` on the real rand_core)
#[verifier::external_body]
pub fn read_u64_into(src: &[u8], dst: &mut [u64])
    requires src@.len() >= 8 * old(dst)@.len()
    ensures final(dst)@ == words64(src@).subrange(0, old(dst)@.len() as int)
{ unimplemented!() }
#[verifier::external_body]
pub fn read_u32_into(src: &[u8], dst: &mut [u32])
    requires src@.len() >= 4 * old(dst)@.len()
    ensures final(dst)@ == words32(src@).subrange(0, old(dst)@.len() as int)
{ unimplemented!() }
}

pub mod impls {
use vstd::prelude::*;
use crate::shims::*;
use super::*;
//@IMPLS@
}
}
