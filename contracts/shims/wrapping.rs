// D5: local stand-in for core::num::Wrapping (vstd's operator spec traits cannot be implemented for a foreign
// type: orphan rule).  The operator impls below are themselves verified; what is assumed (T4) is that
// core::num::Wrapping has the same operator semantics (wrapping add/sub, xor, not, shifts with the amount
// taken modulo the bit width) - cross-checked on all inputs by Kani harnesses kani/std_shims.
pub mod wrapping {
use vstd::prelude::*;
use vstd::std_specs::ops::*;
pub struct Wrapping<T>(pub T);
impl AddSpecImpl<Wrapping<u32>> for Wrapping<u32> {
    open spec fn obeys_add_spec() -> bool { true }
    open spec fn add_req(self, o: Wrapping<u32>) -> bool { true }
    open spec fn add_spec(self, o: Wrapping<u32>) -> Wrapping<u32> { Wrapping(self.0.wrapping_add(o.0)) }
}
impl core::ops::Add<Wrapping<u32>> for Wrapping<u32> { type Output = Wrapping<u32>;
    fn add(self, o: Wrapping<u32>) -> (r: Wrapping<u32>) { Wrapping(self.0.wrapping_add(o.0)) }
}
impl SubSpecImpl<Wrapping<u32>> for Wrapping<u32> {
    open spec fn obeys_sub_spec() -> bool { true }
    open spec fn sub_req(self, o: Wrapping<u32>) -> bool { true }
    open spec fn sub_spec(self, o: Wrapping<u32>) -> Wrapping<u32> { Wrapping(self.0.wrapping_sub(o.0)) }
}
impl core::ops::Sub<Wrapping<u32>> for Wrapping<u32> { type Output = Wrapping<u32>;
    fn sub(self, o: Wrapping<u32>) -> (r: Wrapping<u32>) { Wrapping(self.0.wrapping_sub(o.0)) }
}
impl BitXorSpecImpl<Wrapping<u32>> for Wrapping<u32> {
    open spec fn obeys_bitxor_spec() -> bool { true }
    open spec fn bitxor_req(self, o: Wrapping<u32>) -> bool { true }
    open spec fn bitxor_spec(self, o: Wrapping<u32>) -> Wrapping<u32> { Wrapping(self.0 ^ o.0) }
}
impl core::ops::BitXor<Wrapping<u32>> for Wrapping<u32> { type Output = Wrapping<u32>;
    fn bitxor(self, o: Wrapping<u32>) -> (r: Wrapping<u32>) { Wrapping(self.0 ^ o.0) }
}
impl ShlSpecImpl<usize> for Wrapping<u32> {
    open spec fn obeys_shl_spec() -> bool { true }
    open spec fn shl_req(self, o: usize) -> bool { true }
    open spec fn shl_spec(self, o: usize) -> Wrapping<u32> { Wrapping(self.0 << ((o % 32) as u32)) }
}
impl core::ops::Shl<usize> for Wrapping<u32> { type Output = Wrapping<u32>;
    fn shl(self, o: usize) -> (r: Wrapping<u32>) { Wrapping(self.0 << ((o % 32) as u32)) }
}
impl ShrSpecImpl<usize> for Wrapping<u32> {
    open spec fn obeys_shr_spec() -> bool { true }
    open spec fn shr_req(self, o: usize) -> bool { true }
    open spec fn shr_spec(self, o: usize) -> Wrapping<u32> { Wrapping(self.0 >> ((o % 32) as u32)) }
}
impl core::ops::Shr<usize> for Wrapping<u32> { type Output = Wrapping<u32>;
    fn shr(self, o: usize) -> (r: Wrapping<u32>) { Wrapping(self.0 >> ((o % 32) as u32)) }
}
impl NotSpecImpl for Wrapping<u32> {
    open spec fn obeys_not_spec() -> bool { true }
    open spec fn not_req(self) -> bool { true }
    open spec fn not_spec(self) -> Wrapping<u32> { Wrapping(!self.0) }
}
impl core::ops::Not for Wrapping<u32> { type Output = Wrapping<u32>;
    fn not(self) -> (r: Wrapping<u32>) { Wrapping(!self.0) }
}
impl AddAssignSpecImpl<Wrapping<u32>> for Wrapping<u32> {
    open spec fn obeys_add_assign_spec() -> bool { true }
    open spec fn add_assign_req(&self, o: Wrapping<u32>) -> bool { true }
    open spec fn add_assign_spec(&self, o: Wrapping<u32>) -> &Wrapping<u32> { &Wrapping(self.0.wrapping_add(o.0)) }
}
impl core::ops::AddAssign<Wrapping<u32>> for Wrapping<u32> {
    fn add_assign(&mut self, o: Wrapping<u32>) { self.0 = self.0.wrapping_add(o.0); }
}
impl SubAssignSpecImpl<Wrapping<u32>> for Wrapping<u32> {
    open spec fn obeys_sub_assign_spec() -> bool { true }
    open spec fn sub_assign_req(&self, o: Wrapping<u32>) -> bool { true }
    open spec fn sub_assign_spec(&self, o: Wrapping<u32>) -> &Wrapping<u32> { &Wrapping(self.0.wrapping_sub(o.0)) }
}
impl core::ops::SubAssign<Wrapping<u32>> for Wrapping<u32> {
    fn sub_assign(&mut self, o: Wrapping<u32>) { self.0 = self.0.wrapping_sub(o.0); }
}
impl BitXorAssignSpecImpl<Wrapping<u32>> for Wrapping<u32> {
    open spec fn obeys_bitxor_assign_spec() -> bool { true }
    open spec fn bitxor_assign_req(&self, o: Wrapping<u32>) -> bool { true }
    open spec fn bitxor_assign_spec(&self, o: Wrapping<u32>) -> &Wrapping<u32> { &Wrapping(self.0 ^ o.0) }
}
impl core::ops::BitXorAssign<Wrapping<u32>> for Wrapping<u32> {
    fn bitxor_assign(&mut self, o: Wrapping<u32>) { self.0 = self.0 ^ o.0; }
}
impl vstd::std_specs::cmp::PartialEqSpecImpl for Wrapping<u32> {
    open spec fn obeys_eq_spec() -> bool { true }
    open spec fn eq_spec(&self, o: &Wrapping<u32>) -> bool { self.0 == o.0 }
}
impl PartialEq for Wrapping<u32> {
    fn eq(&self, o: &Wrapping<u32>) -> (r: bool) { self.0 == o.0 }
}
impl Clone for Wrapping<u32> {
    fn clone(&self) -> (r: Wrapping<u32>) ensures r == *self { Wrapping(self.0) }
}
impl Copy for Wrapping<u32> {}
impl AddSpecImpl<Wrapping<u64>> for Wrapping<u64> {
    open spec fn obeys_add_spec() -> bool { true }
    open spec fn add_req(self, o: Wrapping<u64>) -> bool { true }
    open spec fn add_spec(self, o: Wrapping<u64>) -> Wrapping<u64> { Wrapping(self.0.wrapping_add(o.0)) }
}
impl core::ops::Add<Wrapping<u64>> for Wrapping<u64> { type Output = Wrapping<u64>;
    fn add(self, o: Wrapping<u64>) -> (r: Wrapping<u64>) { Wrapping(self.0.wrapping_add(o.0)) }
}
impl SubSpecImpl<Wrapping<u64>> for Wrapping<u64> {
    open spec fn obeys_sub_spec() -> bool { true }
    open spec fn sub_req(self, o: Wrapping<u64>) -> bool { true }
    open spec fn sub_spec(self, o: Wrapping<u64>) -> Wrapping<u64> { Wrapping(self.0.wrapping_sub(o.0)) }
}
impl core::ops::Sub<Wrapping<u64>> for Wrapping<u64> { type Output = Wrapping<u64>;
    fn sub(self, o: Wrapping<u64>) -> (r: Wrapping<u64>) { Wrapping(self.0.wrapping_sub(o.0)) }
}
impl BitXorSpecImpl<Wrapping<u64>> for Wrapping<u64> {
    open spec fn obeys_bitxor_spec() -> bool { true }
    open spec fn bitxor_req(self, o: Wrapping<u64>) -> bool { true }
    open spec fn bitxor_spec(self, o: Wrapping<u64>) -> Wrapping<u64> { Wrapping(self.0 ^ o.0) }
}
impl core::ops::BitXor<Wrapping<u64>> for Wrapping<u64> { type Output = Wrapping<u64>;
    fn bitxor(self, o: Wrapping<u64>) -> (r: Wrapping<u64>) { Wrapping(self.0 ^ o.0) }
}
impl ShlSpecImpl<usize> for Wrapping<u64> {
    open spec fn obeys_shl_spec() -> bool { true }
    open spec fn shl_req(self, o: usize) -> bool { true }
    open spec fn shl_spec(self, o: usize) -> Wrapping<u64> { Wrapping(self.0 << ((o % 64) as u64)) }
}
impl core::ops::Shl<usize> for Wrapping<u64> { type Output = Wrapping<u64>;
    fn shl(self, o: usize) -> (r: Wrapping<u64>) { Wrapping(self.0 << ((o % 64) as u64)) }
}
impl ShrSpecImpl<usize> for Wrapping<u64> {
    open spec fn obeys_shr_spec() -> bool { true }
    open spec fn shr_req(self, o: usize) -> bool { true }
    open spec fn shr_spec(self, o: usize) -> Wrapping<u64> { Wrapping(self.0 >> ((o % 64) as u64)) }
}
impl core::ops::Shr<usize> for Wrapping<u64> { type Output = Wrapping<u64>;
    fn shr(self, o: usize) -> (r: Wrapping<u64>) { Wrapping(self.0 >> ((o % 64) as u64)) }
}
impl NotSpecImpl for Wrapping<u64> {
    open spec fn obeys_not_spec() -> bool { true }
    open spec fn not_req(self) -> bool { true }
    open spec fn not_spec(self) -> Wrapping<u64> { Wrapping(!self.0) }
}
impl core::ops::Not for Wrapping<u64> { type Output = Wrapping<u64>;
    fn not(self) -> (r: Wrapping<u64>) { Wrapping(!self.0) }
}
impl AddAssignSpecImpl<Wrapping<u64>> for Wrapping<u64> {
    open spec fn obeys_add_assign_spec() -> bool { true }
    open spec fn add_assign_req(&self, o: Wrapping<u64>) -> bool { true }
    open spec fn add_assign_spec(&self, o: Wrapping<u64>) -> &Wrapping<u64> { &Wrapping(self.0.wrapping_add(o.0)) }
}
impl core::ops::AddAssign<Wrapping<u64>> for Wrapping<u64> {
    fn add_assign(&mut self, o: Wrapping<u64>) { self.0 = self.0.wrapping_add(o.0); }
}
impl SubAssignSpecImpl<Wrapping<u64>> for Wrapping<u64> {
    open spec fn obeys_sub_assign_spec() -> bool { true }
    open spec fn sub_assign_req(&self, o: Wrapping<u64>) -> bool { true }
    open spec fn sub_assign_spec(&self, o: Wrapping<u64>) -> &Wrapping<u64> { &Wrapping(self.0.wrapping_sub(o.0)) }
}
impl core::ops::SubAssign<Wrapping<u64>> for Wrapping<u64> {
    fn sub_assign(&mut self, o: Wrapping<u64>) { self.0 = self.0.wrapping_sub(o.0); }
}
impl BitXorAssignSpecImpl<Wrapping<u64>> for Wrapping<u64> {
    open spec fn obeys_bitxor_assign_spec() -> bool { true }
    open spec fn bitxor_assign_req(&self, o: Wrapping<u64>) -> bool { true }
    open spec fn bitxor_assign_spec(&self, o: Wrapping<u64>) -> &Wrapping<u64> { &Wrapping(self.0 ^ o.0) }
}
impl core::ops::BitXorAssign<Wrapping<u64>> for Wrapping<u64> {
    fn bitxor_assign(&mut self, o: Wrapping<u64>) { self.0 = self.0 ^ o.0; }
}
impl vstd::std_specs::cmp::PartialEqSpecImpl for Wrapping<u64> {
    open spec fn obeys_eq_spec() -> bool { true }
    open spec fn eq_spec(&self, o: &Wrapping<u64>) -> bool { self.0 == o.0 }
}
impl PartialEq for Wrapping<u64> {
    fn eq(&self, o: &Wrapping<u64>) -> (r: bool) { self.0 == o.0 }
}
impl Clone for Wrapping<u64> {
    fn clone(&self) -> (r: Wrapping<u64>) ensures r == *self { Wrapping(self.0) }
}
impl Copy for Wrapping<u64> {}
}
