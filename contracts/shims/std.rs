// ---- shims for std functions the installed vstd has no specification for (DESIGN §4 T3, T4) ----
pub mod shims {
use vstd::prelude::*;

pub open spec fn spec_rotl64(x: u64, n: u32) -> u64 {
    if n % 64 == 0 { x } else { (x << ((n % 64) as u64)) | (x >> ((64 - n % 64) as u64)) }
}
pub open spec fn spec_rotr64(x: u64, n: u32) -> u64 {
    if n % 64 == 0 { x } else { (x >> ((n % 64) as u64)) | (x << ((64 - n % 64) as u64)) }
}
pub open spec fn spec_rotl32(x: u32, n: u32) -> u32 {
    if n % 32 == 0 { x } else { (x << ((n % 32) as u32)) | (x >> ((32 - n % 32) as u32)) }
}
pub open spec fn spec_rotr32(x: u32, n: u32) -> u32 {
    if n % 32 == 0 { x } else { (x >> ((n % 32) as u32)) | (x << ((32 - n % 32) as u32)) }
}
// T3: assumed; cross-checked against the real std by loop-free Kani harnesses (kani/std_shims)
pub assume_specification [u64::rotate_left] (x: u64, n: u32) -> (r: u64) ensures r == spec_rotl64(x, n);
pub assume_specification [u64::rotate_right] (x: u64, n: u32) -> (r: u64) ensures r == spec_rotr64(x, n);
pub assume_specification [u32::rotate_left] (x: u32, n: u32) -> (r: u32) ensures r == spec_rotl32(x, n);
pub assume_specification [u32::rotate_right] (x: u32, n: u32) -> (r: u32) ensures r == spec_rotr32(x, n);

// T3: `<[T; N] as AsMut<[T]>>::as_mut` is the array viewed as a slice
pub assume_specification<T, const N: usize> [<[T; N] as core::convert::AsMut<[T]>>::as_mut] (a: &mut [T; N]) -> (r: &mut [T])
    ensures r@ == old(a)@, final(r)@ == final(a)@;

// D4: panics are calls to a function that can never be called
#[verifier::external_body]
pub fn vpanic(msg: &str) -> !
    requires false
{ panic!() }

// D6: little-endian byte conversions.  The meaning of "little-endian" is spelled out here as open spec functions
// (vstd's spec_uN_to/from_le_bytes are closed); the exec shims below are assumed to implement them (T4) and are
// cross-checked against the real std methods on all inputs by Kani harnesses (kani/std_shims).
pub open spec fn le32(x: u32) -> Seq<u8> {
    seq![(x & 0xff) as u8, ((x >> 8u32) & 0xff) as u8, ((x >> 16u32) & 0xff) as u8, ((x >> 24u32) & 0xff) as u8]
}
pub open spec fn le64(x: u64) -> Seq<u8> {
    seq![(x & 0xff) as u8, ((x >> 8u64) & 0xff) as u8, ((x >> 16u64) & 0xff) as u8, ((x >> 24u64) & 0xff) as u8,
         ((x >> 32u64) & 0xff) as u8, ((x >> 40u64) & 0xff) as u8, ((x >> 48u64) & 0xff) as u8, ((x >> 56u64) & 0xff) as u8]
}
pub open spec fn from_le32(b: Seq<u8>) -> u32 {
    (b[0] as u32) | ((b[1] as u32) << 8u32) | ((b[2] as u32) << 16u32) | ((b[3] as u32) << 24u32)
}
pub open spec fn from_le64(b: Seq<u8>) -> u64 {
    (b[0] as u64) | ((b[1] as u64) << 8u64) | ((b[2] as u64) << 16u64) | ((b[3] as u64) << 24u64)
    | ((b[4] as u64) << 32u64) | ((b[5] as u64) << 40u64) | ((b[6] as u64) << 48u64) | ((b[7] as u64) << 56u64)
}
pub proof fn lemma_le32_roundtrip(x: u32) ensures from_le32(le32(x)) == x, le32(x).len() == 4
{
    assert(((((x & 0xff) as u8) as u32) | ((((x >> 8u32) & 0xff) as u8) as u32) << 8u32 | ((((x >> 16u32) & 0xff) as u8) as u32) << 16u32 | ((((x >> 24u32) & 0xff) as u8) as u32) << 24u32) == x) by (bit_vector);
}
pub proof fn lemma_le64_roundtrip(x: u64) ensures from_le64(le64(x)) == x, le64(x).len() == 8
{
    assert(((((x & 0xff) as u8) as u64) | ((((x >> 8u64) & 0xff) as u8) as u64) << 8u64 | ((((x >> 16u64) & 0xff) as u8) as u64) << 16u64 | ((((x >> 24u64) & 0xff) as u8) as u64) << 24u64
      | ((((x >> 32u64) & 0xff) as u8) as u64) << 32u64 | ((((x >> 40u64) & 0xff) as u8) as u64) << 40u64 | ((((x >> 48u64) & 0xff) as u8) as u64) << 48u64 | ((((x >> 56u64) & 0xff) as u8) as u64) << 56u64) == x) by (bit_vector);
}
pub proof fn lemma_from_le32_zero(b: Seq<u8>) requires b.len() == 4
    ensures (from_le32(b) == 0) == (b[0] == 0 && b[1] == 0 && b[2] == 0 && b[3] == 0)
{
    let (a0, a1, a2, a3) = (b[0], b[1], b[2], b[3]);
    assert((((a0 as u32) | ((a1 as u32) << 8u32) | ((a2 as u32) << 16u32) | ((a3 as u32) << 24u32)) == 0) == (a0 == 0 && a1 == 0 && a2 == 0 && a3 == 0)) by (bit_vector);
}
pub proof fn lemma_from_le64_zero(b: Seq<u8>) requires b.len() == 8
    ensures (from_le64(b) == 0) == (b[0] == 0 && b[1] == 0 && b[2] == 0 && b[3] == 0 && b[4] == 0 && b[5] == 0 && b[6] == 0 && b[7] == 0)
{
    let (a0, a1, a2, a3, a4, a5, a6, a7) = (b[0], b[1], b[2], b[3], b[4], b[5], b[6], b[7]);
    assert((((a0 as u64) | ((a1 as u64) << 8u64) | ((a2 as u64) << 16u64) | ((a3 as u64) << 24u64) | ((a4 as u64) << 32u64) | ((a5 as u64) << 40u64) | ((a6 as u64) << 48u64) | ((a7 as u64) << 56u64)) == 0)
        == (a0 == 0 && a1 == 0 && a2 == 0 && a3 == 0 && a4 == 0 && a5 == 0 && a6 == 0 && a7 == 0)) by (bit_vector);
}
pub trait ToLe8: Sized { spec fn le(self) -> Seq<u8>; fn to_le_bytes_v(self) -> (r: [u8; 8]) ensures r@ == self.le(); }
pub trait ToLe4: Sized { spec fn le(self) -> Seq<u8>; fn to_le_bytes_v(self) -> (r: [u8; 4]) ensures r@ == self.le(); }
impl ToLe8 for u64 { open spec fn le(self) -> Seq<u8> { le64(self) }
  #[verifier::external_body] fn to_le_bytes_v(self) -> (r: [u8; 8]) { self.to_le_bytes() } }
impl ToLe4 for u32 { open spec fn le(self) -> Seq<u8> { le32(self) }
  #[verifier::external_body] fn to_le_bytes_v(self) -> (r: [u8; 4]) { self.to_le_bytes() } }
#[verifier::external_body]
pub fn u64_from_le_bytes_v(b: [u8; 8]) -> (r: u64) ensures r == from_le64(b@) { u64::from_le_bytes(b) }
#[verifier::external_body]
pub fn u32_from_le_bytes_v(b: [u8; 4]) -> (r: u32) ensures r == from_le32(b@) { u32::from_le_bytes(b) }

// D14: `x.leading_zeros()` on u64: vstd's axiom for u64::leading_zeros does not expose that the bit below the
// leading zeros is set, so the call goes through a shim whose contract is spelled out here (assumed, T4; cross-checked
// against the real u64::leading_zeros for all 2^64 inputs by a loop-free Kani harness).
pub open spec fn bitlen(m: u64) -> nat decreases m { if m == 0 { 0 } else { 1 + bitlen(m / 2) } }
pub trait LeadingZerosV: Sized { fn leading_zeros_v(self) -> (r: u32); }
impl LeadingZerosV for u64 {
    #[verifier::external_body]
    fn leading_zeros_v(self) -> (r: u32) ensures r == 64 - bitlen(self) { self.leading_zeros() }
}
pub proof fn lemma_bitlen_bounds(m: u64) ensures bitlen(m) <= 64, (m == 0) == (bitlen(m) == 0), m >= 16 ==> bitlen(m) >= 5
    decreases m
{
    if m != 0 {
        lemma_bitlen_bounds(m / 2);
        // m < 2^64  =>  bitlen(m) <= 64: by induction on the bound  m < 2^k ==> bitlen(m) <= k
        assert(pow2n(64) == 0x1_0000_0000_0000_0000) by (compute);
        lemma_bitlen_le(m, 64);
        if m >= 16 { reveal_with_fuel(bitlen, 6); }
    }
}
pub open spec fn pow2n(k: nat) -> nat decreases k { if k == 0 { 1 } else { 2 * pow2n((k - 1) as nat) } }
pub proof fn lemma_bitlen_le(m: u64, k: nat) requires (m as nat) < pow2n(k) ensures bitlen(m) <= k decreases k
{
    if m != 0 {
        if k == 0 { } else { lemma_bitlen_le(m / 2, (k - 1) as nat); }
    }
}

// T3: i32/i64::unsigned_abs
pub open spec fn abs_int(x: int) -> nat { if x < 0 { (-x) as nat } else { x as nat } }
pub assume_specification [i32::unsigned_abs] (x: i32) -> (r: u32) ensures r == abs_int(x as int);
pub assume_specification [i64::unsigned_abs] (x: i64) -> (r: u64) ensures r == abs_int(x as int);

// D11: `seed.iter().all(|&x| x == 0)` (closure patterns are outside the dialect); cross-checked by Kani on the real code (C08)
pub open spec fn all_zero(b: Seq<u8>) -> bool { forall |i: int| 0 <= i < b.len() ==> b[i] == 0 }
#[verifier::external_body]
pub fn all_zero_x(b: &[u8]) -> (r: bool) ensures r == all_zero(b@) { b.iter().all(|&x| x == 0) }
}
