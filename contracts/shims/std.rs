// ---- shims for std functions the installed vstd has no specification for (DESIGN §4 T3, T4) ----
pub mod shims {
use vstd::prelude::*;

pub open spec fn spec_rotl64(x: u64, n: u32) -> u64 {
    if n % 64 == 0 { x } else { (x << ((n % 64) as u64)) | (x >> ((64 - n % 64) as u64)) }
}
pub open spec fn spec_rotr64(x: u64, n: u32) -> u64 {
    if n % 64 == 0 { x } else { (x >> ((n % 64) as u64)) | (x << ((64 - n % 64) as u64)) }
}
pub open spec fn spec_rotl32(x: u32, n: u32) -> u32 {
    if n % 32 == 0 { x } else { (x << ((n % 32) as u32)) | (x >> ((32 - n % 32) as u32)) }
}
pub open spec fn spec_rotr32(x: u32, n: u32) -> u32 {
    if n % 32 == 0 { x } else { (x >> ((n % 32) as u32)) | (x << ((32 - n % 32) as u32)) }
}
// T3: assumed; cross-checked against the real std by loop-free Kani harnesses (kani/std_shims)
pub assume_specification [u64::rotate_left] (x: u64, n: u32) -> (r: u64) ensures r == spec_rotl64(x, n);
pub assume_specification [u64::rotate_right] (x: u64, n: u32) -> (r: u64) ensures r == spec_rotr64(x, n);
pub assume_specification [u32::rotate_left] (x: u32, n: u32) -> (r: u32) ensures r == spec_rotl32(x, n);
pub assume_specification [u32::rotate_right] (x: u32, n: u32) -> (r: u32) ensures r == spec_rotr32(x, n);

// D4: panics are calls to a function that can never be called
#[verifier::external_body]
pub fn vpanic(msg: &str) -> !
    requires false
{ panic!() }

// D6: little-endian byte conversions with vstd's byte specs (the std methods cannot be named in assume_specification)
pub open spec fn le64(x: u64) -> Seq<u8> { vstd::bytes::spec_u64_to_le_bytes(x) }
pub open spec fn le32(x: u32) -> Seq<u8> { vstd::bytes::spec_u32_to_le_bytes(x) }
pub trait ToLe8: Sized { spec fn le(self) -> Seq<u8>; fn to_le_bytes_v(self) -> (r: [u8; 8]) ensures r@ == self.le(); }
pub trait ToLe4: Sized { spec fn le(self) -> Seq<u8>; fn to_le_bytes_v(self) -> (r: [u8; 4]) ensures r@ == self.le(); }
impl ToLe8 for u64 { open spec fn le(self) -> Seq<u8> { le64(self) }
  #[verifier::external_body] fn to_le_bytes_v(self) -> (r: [u8; 8]) { self.to_le_bytes() } }
impl ToLe4 for u32 { open spec fn le(self) -> Seq<u8> { le32(self) }
  #[verifier::external_body] fn to_le_bytes_v(self) -> (r: [u8; 4]) { self.to_le_bytes() } }
#[verifier::external_body]
pub fn u64_from_le_bytes_v(b: [u8; 8]) -> (r: u64) ensures r == vstd::bytes::spec_u64_from_le_bytes(b@) { u64::from_le_bytes(b) }
#[verifier::external_body]
pub fn u32_from_le_bytes_v(b: [u8; 4]) -> (r: u32) ensures r == vstd::bytes::spec_u32_from_le_bytes(b@) { u32::from_le_bytes(b) }

// D11: `seed.iter().all(|&x| x == 0)` (closure patterns are outside the dialect); cross-checked by Kani on the real code (C08)
pub open spec fn all_zero(b: Seq<u8>) -> bool { forall |i: int| 0 <= i < b.len() ==> b[i] == 0 }
#[verifier::external_body]
pub fn all_zero_x(b: &[u8]) -> (r: bool) ensures r == all_zero(b@) { b.iter().all(|&x| x == 0) }
}
