"""Verus unit `xoshiro`: all 15 generators of rand_xoshiro, extracted from the expanded crate, woven with
contracts whose postconditions are the statements of C01, C05, C06, C08, C09, C10 (see DESIGN §5)."""
import glob
import importlib.util
import os
import re

from vf.unit import Unit, REPO
from vf.rs import Crate, AnchorLost
from vf.weave import Fn, C, Loop, Insert, entry, before, after, lit
from vf import dialect

from vf.common import rand_core_impls_text, SHIMS, PREAMBLE

HERE = os.path.dirname(__file__)

# generator -> description
GENS = {
    'SplitMix64':          dict(mod='splitmix64', kind='splitmix', w=64, seed=8),
    'Xoroshiro64Star':     dict(mod='xoroshiro64star', eng='xoro64', w=32, nw=2, fields=True, seed=8, jump=None),
    'Xoroshiro64StarStar': dict(mod='xoroshiro64starstar', eng='xoro64', w=32, nw=2, fields=True, seed=8, jump=None),
    'Xoroshiro128Plus':    dict(mod='xoroshiro128plus', eng='xoro128a', w=64, nw=2, fields=True, seed=16, half='upper', jump=True),
    'Xoroshiro128PlusPlus': dict(mod='xoroshiro128plusplus', eng='xoro128b', w=64, nw=2, fields=True, seed=16, half='lower', jump=True),
    'Xoroshiro128StarStar': dict(mod='xoroshiro128starstar', eng='xoro128a', w=64, nw=2, fields=True, seed=16, half='lower', jump=True),
    'Xoshiro128Plus':      dict(mod='xoshiro128plus', eng='xosh128', w=32, nw=4, seed=16, jump=True),
    'Xoshiro128PlusPlus':  dict(mod='xoshiro128plusplus', eng='xosh128', w=32, nw=4, seed=16, jump=True),
    'Xoshiro128StarStar':  dict(mod='xoshiro128starstar', eng='xosh128', w=32, nw=4, seed=16, jump=True),
    'Xoshiro256Plus':      dict(mod='xoshiro256plus', eng='xosh256', w=64, nw=4, seed=32, half='upper', jump=True),
    'Xoshiro256PlusPlus':  dict(mod='xoshiro256plusplus', eng='xosh256', w=64, nw=4, seed=32, half='upper', jump=True),
    'Xoshiro256StarStar':  dict(mod='xoshiro256starstar', eng='xosh256', w=64, nw=4, seed=32, half='upper', jump=True),
    'Xoshiro512Plus':      dict(mod='xoshiro512plus', eng='xosh512', w=64, nw=8, seed=64, half='upper', jump=True, seed512=True),
    'Xoshiro512PlusPlus':  dict(mod='xoshiro512plusplus', eng='xosh512', w=64, nw=8, seed=64, half='upper', jump=True, seed512=True),
    'Xoshiro512StarStar':  dict(mod='xoshiro512starstar', eng='xosh512', w=64, nw=8, seed=64, half='upper', jump=True, seed512=True),
}



def jref_text():
    spec = importlib.util.spec_from_file_location('jumppoly', os.path.join(HERE, '..', '..', 'tools', 'jumppoly.py'))
    jp = importlib.util.module_from_spec(spec)
    spec.loader.exec_module(jp)
    data = jp.compute()
    return jp.rust(data), data


def view_expr(g, base='self'):
    if g.get('fields'):
        return 'seq![%s.s0, %s.s1]' % (base, base)
    return '%s.s@' % base


def ty(g):
    return 'u%d' % g['w']


def gen_spec_impls(name, g):
    """Woven (spec-only) trait impls that give the generator its abstract state and stream functions."""
    T = ty(g)
    V = 'Seq<%s>' % T
    low = name.lower()
    eng = g['eng']
    if g['w'] == 64:
        s64 = '(%s_out(v), %s_next(v))' % (low, eng)
        if g['half'] == 'upper':
            s32 = '((%s_out(v) >> 32u64) as u32, %s_next(v))' % (low, eng)
        else:
            s32 = '(%s_out(v) as u32, %s_next(v))' % (low, eng)
    else:
        s32 = '(%s_out(v), %s_next(v))' % (low, eng)
        s64 = 'via_u32::<Self>(v)'
    words = 'words%d' % g['w']
    n = g['seed']
    seedty = 'crate::common::Seed512' if g.get('seed512') else '[u8; %d]' % n
    seedbytes = 's.0@' if g.get('seed512') else 's@'
    s64_in_view = s64 if g['w'] == 64 else None
    out = '''
impl RngView for {name} {{
    type V = {V};
    open spec fn v(&self) -> {V} {{ {view} }}
    open spec fn s32(v: {V}) -> (u32, {V}) {{ {s32} }}
    open spec fn s64(v: {V}) -> (u64, {V}) {{ {s64v} }}
}}
impl FillView for {name} {{
    open spec fn sfill(v: {V}, n: nat) -> (Seq<u8>, {V}) {{ fill_via_next::<Self>(v, n) }}
}}
impl SeedView for {name} {{
    open spec fn seed_len() -> nat {{ {n} }}
    // C08: the all-zero seed is replaced by the SplitMix64 expansion of 0; every other seed is used verbatim (LE words)
    open spec fn from_seed_v(b: Seq<u8>) -> {V} {{
        if all_zero(b) {{ {words}(fill_via_next::<crate::splitmix64::SplitMix64>(0, {n}).0) }} else {{ {words}(b) }}
    }}
    // C09: seed_from_u64(x) == from_seed(first seed-length bytes of the SplitMix64 stream started at x)
    open spec fn seed_from_u64_v(x: u64) -> {V} {{ Self::from_seed_v(fill_via_next::<crate::splitmix64::SplitMix64>(x, {n}).0) }}
}}
impl FromRngDefault for {name} {{}}
impl SeedableRng for {name} {{
    open spec fn seed_bytes(s: {seedty}) -> Seq<u8> {{ {seedbytes} }}
'''.format(name=name, V=V, view=view_expr(g), s32=s32,
           s64v=(s64 if g['w'] == 64 else '{ let (x, v1) = (%s_out(v), %s_next(v)); let (y, v2) = (%s_out(v1), %s_next(v1)); ((((y as u64) << 32u64) | (x as u64)), v2) }' % (low, eng, low, eng)),
           seedty=seedty, seedbytes=seedbytes, n=n, words=words)
    return out


def build(features=()):
    u = Unit('xoshiro')
    cr = u.crate('rand_xoshiro', features=features)
    u.raw(open(os.path.join(SHIMS, 'std.rs')).read())
    rc = open(os.path.join(SHIMS, 'rand_core.rs')).read()
    u.raw(rc.replace('//@IMPLS@', rand_core_impls_text(u)))
    jtxt, jdata = jref_text()
    u.jump_ref = jdata
    u.raw(open(os.path.join(HERE, 'spec.rs')).read().replace('//@JREF@', jtxt))

    # crate-root re-exports, as in the expanded crate (`pub use common::Seed512; pub use splitmix64::SplitMix64; …`)
    for p in cr.order:
        if p.startswith('use ') and '::' in p and not p.startswith('use rand_core') and not p.startswith('use core'):
            u.raw('pub use crate::' + cr.get(p).name.strip() + ';')
    # ---- common: Seed512 -------------------------------------------------------------------------
    u.raw('pub mod common {\n' + PREAMBLE)
    u.struct(cr, 'common::Seed512')
    u.skip('common::Debug@Seed512::fmt', 'Debug formatting; not needed by any claimed property')
    u.skip('common::Clone@Seed512::clone', 'derived Clone of a byte array wrapper; Kani harness seed512_glue')
    u.skip('common::Seed512::iter', 'returns core::slice::Iter (iterator adapters are outside the dialect, D11); Kani harness from_seed_zero_*')
    u.skip('common::Default@Seed512::default / AsRef / AsMut', 'used only by rand_core defaults (T5); Kani harness seed512_glue')
    u.raw('}')

    for name, g in GENS.items():
        mod = g['mod']
        u.raw('pub mod %s {\n' % mod + PREAMBLE)
        for p in cr.order:
            if p.startswith(mod + '::use '):
                u.item(cr, p, rewrite=[(r'use crate::rand_core::\{RngCore, SeedableRng\};', 'use crate::rand_core::{RngCore, SeedableRng};')])
        if g['kind'] if 'kind' in g else False:
            build_splitmix(u, cr, name, g)
        else:
            build_gen(u, cr, name, g)
        u.raw('}')
    u.lemma_file(never_zero_lemmas(), 'C08', prefix='xoshiro.')
    # C06: the reference engines are GF(2)-linear, hence the jump polynomials commute with stepping (and with each other)
    sp = importlib.util.spec_from_file_location('gen_linear_lemmas', os.path.join(HERE, '..', '..', 'tools', 'gen_linear_lemmas.py'))
    gl = importlib.util.module_from_spec(sp)
    sp.loader.exec_module(gl)
    u.lemma_file(gl.gen(), 'C06', prefix='xoshiro.')
    for name in list(u.lemmas):
        if name.endswith('_zero_only_from_zero') or name.endswith('_injective'):
            u.lemmas[name] = ['C08']     # the code-dependent residue of C07: a non-zero state never steps to zero, states never merge
    return u


def never_zero_lemmas():
    """C08: no seeding path of a linear generator yields the all-zero state.  Every path ends in from_seed_v(b) for a
    byte string b of the seed length (from_seed directly; seed_from_u64 via the SplitMix64 expansion; rand_core's default
    from_rng / try_from_rng via the bytes drawn), so one lemma per generator suffices."""
    t = '''pub mod never_zero {
use vstd::prelude::*;
use crate::shims::*;
use crate::rand_core::*;
use crate::rand_core::le::*;
use crate::spec::*;
use crate::splitmix64::SplitMix64;

pub proof fn lemma_mix64_phi()
    ensures mix64(add64(0, PHI_REF())) == 0xe220a8397b1dcdafu64
{
    assert(mix64(add64(0u64, 0x9e3779b97f4a7c15u64)) == 0xe220a8397b1dcdafu64) by (compute_only);
}
pub proof fn lemma_le64_nonzero(w: u64)
    requires w != 0
    ensures !all_zero(le64(w))
{
    lemma_le64_roundtrip(w);
    lemma_from_le64_zero(le64(w));
}
// the SplitMix64 expansion of 0 starts with the LE bytes of mix64(0 + PHI) != 0
pub proof fn lemma_splitmix0_not_all_zero(n: nat)
    requires n >= 8
    ensures !all_zero(fill_via_next::<SplitMix64>(0, n).0), fill_via_next::<SplitMix64>(0, n).0.len() == n
{
    lemma_fill_len::<SplitMix64>(0, n);
    lemma_mix64_phi();
    let w = mix64(add64(0, PHI_REF()));
    let b = fill_via_next::<SplitMix64>(0, n).0;
    lemma_fill_head::<SplitMix64>(0, n);
    assert(b.subrange(0, 8) =~= le64(w));
    lemma_le64_nonzero(w);
    if all_zero(b) {
        assert forall |i: int| 0 <= i < le64(w).len() implies le64(w)[i] == 0 by { assert(le64(w)[i] == b.subrange(0, 8)[i]); assert(b[i] == 0); }
    }
}
pub proof fn lemma_fill_head<R: RngView>(v: R::V, n: nat)
    requires n >= 8
    ensures fill_via_next::<R>(v, n).0.subrange(0, 8) =~= le64(R::s64(v).0)
{
    reveal_with_fuel(fill_via_next, 2);
    lemma_le64_len(R::s64(v).0);
}
pub proof fn lemma_le64_len(w: u64) ensures le64(w).len() == 8 { }
pub proof fn lemma_fill_len<R: RngView>(v: R::V, n: nat)
    ensures fill_via_next::<R>(v, n).0.len() == n
    decreases n
{
    reveal_with_fuel(fill_via_next, 2);
    if n >= 8 { lemma_fill_len::<R>(R::s64(v).1, (n - 8) as nat); }
}
'''
    for name, g in GENS.items():
        if g.get('kind') == 'splitmix':
            continue
        n, w, nw = g['seed'], g['w'], g['nw']
        t += '''
pub proof fn lemma_%s_never_zero(b: Seq<u8>)
    requires b.len() == %d
    ensures exists |i: int| 0 <= i < %d && #[trigger] <crate::%s::%s as SeedView>::from_seed_v(b)[i] != 0
{
    let sm = fill_via_next::<SplitMix64>(0, %d).0;
    lemma_splitmix0_not_all_zero(%d);
    lemma_words%d_zero(b); lemma_words%d_zero(sm);
    let v = <crate::%s::%s as SeedView>::from_seed_v(b);
    if all_zero(b) { assert(v == words%d(sm)); } else { assert(v == words%d(b)); }
}
''' % (name.lower(), n, nw, g['mod'], name, n, n, w, w, g['mod'], name, w, w)
    t += '}\n'
    return t


def build_splitmix(u, cr, name, g):
    mod = g['mod']
    u.struct(cr, mod + '::SplitMix64')
    u.item(cr, mod + '::PHI')
    u.raw('''
impl RngView for SplitMix64 {
    type V = u64;
    open spec fn v(&self) -> u64 { self.x }
    open spec fn s32(v: u64) -> (u32, u64) { splitmix_s32(v) }
    open spec fn s64(v: u64) -> (u64, u64) { splitmix_s64(v) }
}
impl FillView for SplitMix64 {
    open spec fn sfill(v: u64, n: nat) -> (Seq<u8>, u64) { fill_via_next::<Self>(v, n) }
}
impl SeedView for SplitMix64 {
    open spec fn seed_len() -> nat { 8 }
    open spec fn from_seed_v(b: Seq<u8>) -> u64 { from_le64(b) }
    open spec fn seed_from_u64_v(x: u64) -> u64 { x }
}''')
    rp = mod + '::RngCore@SplitMix64'
    u.impl(cr, rp, header='impl Next32 for SplitMix64', fns=['next_u32'], contracts={
        'next_u32': Fn(None, ret='r', builtin_props='C14 C18', trait_props='C05', ensures=[
            C('splitmix64.next_u32.out', 'C01 C05', 'r == mix32(add64(old(self).x, PHI_REF()))'),
            C('splitmix64.next_u32.state', 'C01 C05 C10', 'final(self).x == add64(old(self).x, PHI_REF())')])})
    u.impl(cr, rp, header='impl Next64 for SplitMix64', fns=['next_u64'], contracts={
        'next_u64': Fn(None, ret='r', builtin_props='C14 C18', trait_props='C05', ensures=[
            C('splitmix64.next_u64.out', 'C01 C05', 'r == mix64(add64(old(self).x, PHI_REF()))'),
            C('splitmix64.next_u64.state', 'C01 C05 C10', 'final(self).x == add64(old(self).x, PHI_REF())')])})
    u.impl(cr, rp, header='impl Fill for SplitMix64', fns=['fill_bytes'], contracts={
        'fill_bytes': Fn(None, builtin_props='C14 C18', trait_props='C05')})
    sp = mod + '::SeedableRng@SplitMix64'
    u.impl(cr, sp, header='impl SeedableRng for SplitMix64', keep=['type Seed'], extra='''
    open spec fn seed_bytes(s: [u8; 8]) -> Seq<u8> { s@ }
''', fns=['from_seed', 'seed_from_u64'], contracts={
        'from_seed': Fn(None, ret='r', builtin_props='C14 C18', trait_props='C01 C09',
                        ensures=[C('splitmix64.from_seed.le', 'C01 C09', 'r.x == from_le64(seed@)')],
                        inserts=[after(lit('read_u64_into(&seed, &mut state);'), 'proof { assert(seed@.subrange(0, 8) =~= seed@); }')]),
        'seed_from_u64': Fn(None, ret='r', builtin_props='C14 C18', trait_props='C01 C09',
                            ensures=[C('splitmix64.seed_from_u64.id', 'C01 C09', 'r.x == seed')],
                            inserts=[entry('proof { lemma_le64_roundtrip(seed); }')]),
    })
    derived(u, cr, mod, name, g, 'self.x == other.x', 'r.x == self.x')


def derived(u, cr, mod, name, g, eq_expr, clone_post):
    """Derived Clone / PartialEq as printed by rustc (C10)."""
    u.impl(cr, mod + '::Clone@' + name, header='impl Clone for ' + name, fns=['clone'], contracts={
        'clone': Fn(None, ret='r', builtin_props='C14 C18', ensures=[C('%s.clone.all_fields' % name.lower(), 'C10', clone_post)])})
    u.raw('impl vstd::std_specs::cmp::PartialEqSpecImpl for %s {\n'
          '    open spec fn obeys_eq_spec() -> bool { true }\n'
          '    open spec fn eq_spec(&self, other: &%s) -> bool { %s }\n}' % (name, name, eq_expr))
    u.impl(cr, mod + '::PartialEq@' + name, header='impl PartialEq for ' + name, fns=['eq'], contracts={
        'eq': Fn(None, ret='r', builtin_props='C14 C18', trait_props='C10', ensures=[
            C('%s.eq.iff_all_fields' % name.lower(), 'C10', 'r == (%s)' % eq_expr.replace('self.', 'self.'))])})
    u.skip(mod + '::Debug@' + name + '::fmt', 'derived Debug; no claimed property depends on it')
    u.skip(mod + '::Eq@' + name + '::assert_fields_are_eq', 'compile-time marker, empty body')


def build_gen(u, cr, name, g):
    mod = g['mod']
    low = name.lower()
    eng = g['eng']
    T = ty(g)
    W = g['w']
    nw = g['nw']
    u.struct(cr, mod + '::' + name)
    u.raw(gen_spec_impls(name, g).rstrip()[:-0] if False else gen_spec_impls_head(name, g))
    view_old = view_expr(g, 'old(self)')
    view_fin = view_expr(g, 'final(self)')
    view_self = view_expr(g, 'self')
    native = 'next_u64' if W == 64 else 'next_u32'
    tailproof = Insert('tail', None, 'proof { assert(@0@); }', clauses=[
        C('%s.%s.state_words' % (low, native), 'C01 C05 C06 C10', '%s =~= %s_next(%s)' % (view_self, eng, view_old))])
    native_fc = Fn(None, ret='r', builtin_props='C14 C18', trait_props='C05', ensures=[
        C('%s.%s.out' % (low, native), 'C01 C05', 'r == %s_out(%s)' % (low, view_old)),
        C('%s.%s.state' % (low, native), 'C01 C05 C06 C10', '%s =~= %s_next(%s)' % (view_fin, eng, view_old))],
        inserts=[tailproof])
    rp = mod + '::RngCore@' + name
    if W == 64:
        half = g['half']
        proj = '(%s_out(%s) >> 32u64) as u32' % (low, view_old) if half == 'upper' else '%s_out(%s) as u32' % (low, view_old)
        other_fc = Fn(None, ret='r', builtin_props='C14 C18', trait_props='C05', ensures=[
            C('%s.next_u32.half' % low, 'C05', 'r == %s' % proj),
            C('%s.next_u32.one_step' % low, 'C05 C10', '%s =~= %s_next(%s)' % (view_fin, eng, view_old))])
        u.impl(cr, rp, header='impl Next64 for ' + name, fns=['next_u64'], contracts={'next_u64': native_fc})
        u.impl(cr, rp, header='impl Next32 for ' + name, fns=['next_u32'], contracts={'next_u32': other_fc})
    else:
        other_fc = Fn(None, ret='r', builtin_props='C14 C18', trait_props='C05', ensures=[
            C('%s.next_u64.via_u32' % low, 'C05', 'r == via_u32::<Self>(%s).0' % view_old),
            C('%s.next_u64.two_steps' % low, 'C05 C10', '%s =~= %s_next(%s_next(%s))' % (view_fin, eng, eng, view_old))])
        u.impl(cr, rp, header='impl Next32 for ' + name, fns=['next_u32'], contracts={'next_u32': native_fc})
        u.impl(cr, rp, header='impl Next64 for ' + name, fns=['next_u64'], contracts={'next_u64': other_fc})
    u.impl(cr, rp, header='impl Fill for ' + name, fns=['fill_bytes'], contracts={'fill_bytes': Fn(None, builtin_props='C14 C18', trait_props='C05')})

    # ---- seeding -----------------------------------------------------------------------------------
    n = g['seed']
    words = 'words%d' % W
    seedbytes = 'seed.0@' if g.get('seed512') else 'seed@'
    sm = 'fill_via_next::<crate::splitmix64::SplitMix64>'
    fs_ins = []
    if g.get('fields'):
        fs_ins.append(after(lit('read_u%d_into(&seed, &mut s);' % W),
                            'proof { assert(seq![s[0], s[1]] =~= %s(seed@)); }' % words))
    else:
        src = '&seed.0' if g.get('seed512') else '&seed'
        fs_ins.append(after(lit('read_u%d_into(%s, &mut state);' % (W, src)),
                            'proof { assert(state@ =~= %s(%s)); }' % (words, seedbytes)))
    from_seed = Fn(None, ret='r', builtin_props='C14 C18', trait_props='C08 C09', ensures=[
        C('%s.from_seed.zero_remapped' % low, 'C08', 'all_zero(%s) ==> r.v() == Self::seed_from_u64_v(0)' % seedbytes),
        C('%s.from_seed.verbatim_le' % low, 'C01 C08', '!all_zero(%s) ==> r.v() == %s(%s)' % (seedbytes, words, seedbytes))],
        inserts=fs_ins,
        dialect=[d11_seed512] if g.get('seed512') else [])
    seed_from_u64 = Fn(None, ret='r', builtin_props='C14 C18', trait_props='C08 C09', ensures=[
        C('%s.seed_from_u64.splitmix_expansion' % low, 'C08 C09', 'r.v() == Self::from_seed_v(%s(seed, %d).0)' % (sm, n))])
    sp = mod + '::SeedableRng@' + name
    u.impl(cr, sp, header='impl SeedableRng for ' + name, keep=['type Seed'], extra=gen_spec_impls_seed(name, g),
           fns=['from_seed', 'seed_from_u64'], contracts={'from_seed': from_seed, 'seed_from_u64': seed_from_u64})
    for f in ('from_rng', 'try_from_rng'):
        if sp + '::' + f in cr.index:
            raise AnchorLost('%s overrides %s: the assumed default contract (T5) does not apply' % (name, f))

    # ---- jump / long_jump --------------------------------------------------------------------------
    if g.get('jump'):
        ip = mod + '::impl@' + name
        cs = {}
        for jn in ('jump', 'long_jump'):
            cs[jn] = jump_contract(name, g, jn)
        u.impl(cr, ip, header='impl ' + name, fns=['jump', 'long_jump'], contracts=cs)

    if g.get('fields'):
        eqx = 'self.s0 == other.s0 && self.s1 == other.s1'
        cl = 'r.s0 == self.s0 && r.s1 == self.s1'
    else:
        eqx = 'self.s@ =~= other.s@'
        cl = 'r.s@ =~= self.s@'
    derived(u, cr, mod, name, g, eqx, cl)


def d11_seed512(s, log):
    s2 = s.replace('crate::shims::all_zero_x(&seed)', 'crate::shims::all_zero_x(&seed.0)')
    if s2 == s:
        raise AnchorLost('D11 (Seed512) did not apply')
    log.hit('D11')
    return s2


def gen_spec_impls_head(name, g):
    t = gen_spec_impls(name, g)
    return t[:t.index('impl SeedableRng for')]


def gen_spec_impls_seed(name, g):
    t = gen_spec_impls(name, g)
    t = t[t.index('impl SeedableRng for'):]
    return t[t.index('{') + 1:]


def jump_contract(name, g, jn):
    low = name.lower()
    eng = g['eng']
    W = g['w']
    nw = g['nw']
    T = ty(g)
    n = W * nw
    poly = 'poly%d' % W
    it = 'iter%d' % W
    bit = 'bit%d' % W
    jref = '%s_%s_ref()' % (eng, jn)
    tfn = '|s: Seq<%s>| %s_next(s)' % (T, eng)
    view_self = view_expr(g, 'self')
    view_old = view_expr(g, 'old(self)')
    view_fin = view_expr(g, 'final(self)')
    if nw == 8:
        acc = 's@'
    else:
        acc = 'seq![%s]' % ', '.join('s%d' % i for i in range(nw))
    native = 'next_u64' if W == 64 else 'next_u32'
    pre = '%s.%s' % (low, jn)
    outer = Loop(iter_name='it', invariants=[
        C(pre + '.outer.const', 'C06', 'JUMP@ =~= %s' % jref),
        C(pre + '.outer.state', 'C06', '%s =~= %s(tf, s_init, (%d * it.index@) as nat)' % (view_self, it, W)),
        C(pre + '.outer.acc', 'C06', '%s =~= %s(tf, %s, s_init, (%d * it.index@) as nat)' % (acc, poly, jref, W)),
        C(pre + '.outer.frame', 'C06', 'tf == (%s) && s_init.len() == %d' % (tfn, nw)),
    ])
    inner = Loop(iter_name='it2', invariants=[
        C(pre + '.inner.range', 'C06 C14', '0 <= it.index@ < %d' % nw),
        C(pre + '.inner.word', 'C06', '*j == %s[it.index@ as int]' % jref),
        C(pre + '.inner.state', 'C06', '%s =~= %s(tf, s_init, (%d * it.index@ + b) as nat)' % (view_self, it, W)),
        C(pre + '.inner.acc', 'C06', '%s =~= %s(tf, %s, s_init, (%d * it.index@ + b) as nat)' % (acc, poly, jref, W)),
        C(pre + '.inner.frame', 'C06', 'tf == (%s) && s_init.len() == %d' % (tfn, nw)),
    ])
    bitproof = ('let ghost k = (%d * it.index@ + b) as nat;\n'
                'proof {\n'
                '  assert(k / %d == it.index@ && k %% %d == b) by (nonlinear_arith) requires k == %d * it.index@ + b, 0 <= b < %d, 0 <= it.index@;\n'
                '  assert(%s(%s, k) == ((*j & 1%s << (b as %s)) != 0));\n'
                '  lemma_%s_step(tf, %s, s_init, k);\n'
                '  lemma_%s_step(tf, s_init, k);\n'
                '}') % (W, W, W, W, W, bit, jref, T, T, poly, jref, it)
    stepproof = 'proof { assert(%s(tf, s_init, k + 1) =~= %s_next(%s(tf, s_init, k))); }' % (it, eng, it)
    # anchors: the `if (*j & 1 << b) != 0` test and the step call
    ins = [
        after(r'const JUMP:[^=]*=[^;]*;', 'let ghost s_init = %s; let ghost tf = %s; proof { assert(JUMP@ =~= %s); }' % (view_self, tfn, jref)),
        # all proof text sits at the head of the inner loop body (only j, b and ghost state are mentioned), so that the weave
        # does not depend on the order of the statements in the body: a reordered body fails an invariant instead of an anchor
        Insert('loopbody', 1, bitproof + '\n' + stepproof),
    ]
    return Fn(None, builtin_props='C14 C18', ensures=[
        C(pre + '.poly', 'C06', '%s =~= %s(%s, %s, %s, %d)' % (view_fin, poly, tfn, jref, view_old, n))],
        loops={0: outer, 1: inner}, inserts=ins)
