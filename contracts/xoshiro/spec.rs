// Reference semantics of the xoshiro / xoroshiro family and SplitMix64, transliterated from the
// Blackman–Vigna C sources (xoroshiro64star.c, xoroshiro64starstar.c, xoroshiro128plus.c [24/16/37],
// xoroshiro128plusplus.c [49/21/28], xoroshiro128starstar.c, xoshiro128plus.c, xoshiro128plusplus.c,
// xoshiro128starstar.c 1.1, xoshiro256{plus,plusplus,starstar}.c, xoshiro512{plus,plusplus,starstar}.c,
// splitmix64.c) and the dsiutils Mix4 finalizer.  Written independently of /repo's code (DESIGN T6).
pub mod spec {
use vstd::prelude::*;
use crate::shims::*;

// static inline uintN_t rotl(const uintN_t x, int k) { return (x << k) | (x >> (N - k)); }
pub open spec fn rotl64(x: u64, k: u64) -> u64 { (x << k) | (x >> ((64 - k) as u64)) }
pub open spec fn rotl32(x: u32, k: u32) -> u32 { (x << k) | (x >> ((32 - k) as u32)) }
pub open spec fn add64(a: u64, b: u64) -> u64 { a.wrapping_add(b) }
pub open spec fn add32(a: u32, b: u32) -> u32 { a.wrapping_add(b) }
pub open spec fn mul64(a: u64, b: u64) -> u64 { a.wrapping_mul(b) }
pub open spec fn mul32(a: u32, b: u32) -> u32 { a.wrapping_mul(b) }

// ---------------- engines (state transition of next()) ----------------
// xoroshiro64: s1 ^= s0; s[0] = rotl(s0, 26) ^ s1 ^ (s1 << 9); s[1] = rotl(s1, 13);
pub open spec fn xoro64_next(s: Seq<u32>) -> Seq<u32> {
    let s1 = s[1] ^ s[0];
    seq![rotl32(s[0], 26) ^ s1 ^ (s1 << 9u32), rotl32(s1, 13)]
}
// xoroshiro128+ / ** : s1 ^= s0; s[0] = rotl(s0, 24) ^ s1 ^ (s1 << 16); s[1] = rotl(s1, 37);
pub open spec fn xoro128a_next(s: Seq<u64>) -> Seq<u64> {
    let s1 = s[1] ^ s[0];
    seq![rotl64(s[0], 24) ^ s1 ^ (s1 << 16u64), rotl64(s1, 37)]
}
// xoroshiro128++ : s[0] = rotl(s0, 49) ^ s1 ^ (s1 << 21); s[1] = rotl(s1, 28);
pub open spec fn xoro128b_next(s: Seq<u64>) -> Seq<u64> {
    let s1 = s[1] ^ s[0];
    seq![rotl64(s[0], 49) ^ s1 ^ (s1 << 21u64), rotl64(s1, 28)]
}
// xoshiro128: t = s[1] << 9; s[2] ^= s[0]; s[3] ^= s[1]; s[1] ^= s[2]; s[0] ^= s[3]; s[2] ^= t; s[3] = rotl(s[3], 11);
pub open spec fn xosh128_next(s: Seq<u32>) -> Seq<u32> {
    let t = s[1] << 9u32;
    let s2 = s[2] ^ s[0];
    let s3 = s[3] ^ s[1];
    let s1 = s[1] ^ s2;
    let s0 = s[0] ^ s3;
    seq![s0, s1, s2 ^ t, rotl32(s3, 11)]
}
// xoshiro256: t = s[1] << 17; …; s[3] = rotl(s[3], 45);
pub open spec fn xosh256_next(s: Seq<u64>) -> Seq<u64> {
    let t = s[1] << 17u64;
    let s2 = s[2] ^ s[0];
    let s3 = s[3] ^ s[1];
    let s1 = s[1] ^ s2;
    let s0 = s[0] ^ s3;
    seq![s0, s1, s2 ^ t, rotl64(s3, 45)]
}
// xoshiro512: t = s[1] << 11; s[2] ^= s[0]; s[5] ^= s[1]; s[1] ^= s[2]; s[7] ^= s[3]; s[3] ^= s[4]; s[4] ^= s[5];
//             s[0] ^= s[6]; s[6] ^= s[7]; s[6] ^= t; s[7] = rotl(s[7], 21);
pub open spec fn xosh512_next(s: Seq<u64>) -> Seq<u64> {
    let t = s[1] << 11u64;
    let s2 = s[2] ^ s[0];
    let s5 = s[5] ^ s[1];
    let s1 = s[1] ^ s2;
    let s7 = s[7] ^ s[3];
    let s3 = s[3] ^ s[4];
    let s4 = s[4] ^ s5;
    let s0 = s[0] ^ s[6];
    let s6 = s[6] ^ s7;
    seq![s0, s1, s2, s3, s4, s5, s6 ^ t, rotl64(s7, 21)]
}

// ---------------- output functions (computed on the state *before* the transition) ----------------
pub open spec fn xoroshiro64star_out(s: Seq<u32>) -> u32 { mul32(s[0], 0x9E3779BB) }
pub open spec fn xoroshiro64starstar_out(s: Seq<u32>) -> u32 { mul32(rotl32(mul32(s[0], 0x9E3779BB), 5), 5) }
pub open spec fn xoroshiro128plus_out(s: Seq<u64>) -> u64 { add64(s[0], s[1]) }
pub open spec fn xoroshiro128plusplus_out(s: Seq<u64>) -> u64 { add64(rotl64(add64(s[0], s[1]), 17), s[0]) }
pub open spec fn xoroshiro128starstar_out(s: Seq<u64>) -> u64 { mul64(rotl64(mul64(s[0], 5), 7), 9) }
pub open spec fn xoshiro128plus_out(s: Seq<u32>) -> u32 { add32(s[0], s[3]) }
pub open spec fn xoshiro128plusplus_out(s: Seq<u32>) -> u32 { add32(rotl32(add32(s[0], s[3]), 7), s[0]) }
pub open spec fn xoshiro128starstar_out(s: Seq<u32>) -> u32 { mul32(rotl32(mul32(s[1], 5), 7), 9) }   // version 1.1
pub open spec fn xoshiro256plus_out(s: Seq<u64>) -> u64 { add64(s[0], s[3]) }
pub open spec fn xoshiro256plusplus_out(s: Seq<u64>) -> u64 { add64(rotl64(add64(s[0], s[3]), 23), s[0]) }
pub open spec fn xoshiro256starstar_out(s: Seq<u64>) -> u64 { mul64(rotl64(mul64(s[1], 5), 7), 9) }
pub open spec fn xoshiro512plus_out(s: Seq<u64>) -> u64 { add64(s[0], s[2]) }
pub open spec fn xoshiro512plusplus_out(s: Seq<u64>) -> u64 { add64(rotl64(add64(s[0], s[2]), 17), s[2]) }
pub open spec fn xoshiro512starstar_out(s: Seq<u64>) -> u64 { mul64(rotl64(mul64(s[1], 5), 7), 9) }

// ---------------- SplitMix64 ----------------
pub open spec fn PHI_REF() -> u64 { 0x9e3779b97f4a7c15u64 }
// z = (x += 0x9e3779b97f4a7c15); z = (z ^ (z >> 30)) * 0xbf58476d1ce4e5b9; z = (z ^ (z >> 27)) * 0x94d049bb133111eb; return z ^ (z >> 31);
pub open spec fn mix64(z0: u64) -> u64 {
    let z1 = mul64(z0 ^ (z0 >> 30u64), 0xbf58476d1ce4e5b9);
    let z2 = mul64(z1 ^ (z1 >> 27u64), 0x94d049bb133111eb);
    z2 ^ (z2 >> 31u64)
}
// dsiutils SplitMix64RandomGenerator.nextInt(): Mix4 finalizer, upper 32 bits
pub open spec fn mix32(z0: u64) -> u32 {
    let z1 = mul64(z0 ^ (z0 >> 33u64), 0x62A9D9ED799705F5);
    let z2 = mul64(z1 ^ (z1 >> 28u64), 0xCB24D0A5C88C35B3);
    (z2 >> 32u64) as u32
}
pub open spec fn splitmix_s64(x: u64) -> (u64, u64) { (mix64(add64(x, PHI_REF())), add64(x, PHI_REF())) }
pub open spec fn splitmix_s32(x: u64) -> (u32, u64) { (mix32(add64(x, PHI_REF())), add64(x, PHI_REF())) }

// ---------------- stream positions (the "equivalently" clause of C01) ----------------
pub open spec fn iter64(t: spec_fn(Seq<u64>) -> Seq<u64>, s: Seq<u64>, n: nat) -> Seq<u64> decreases n {
    if n == 0 { s } else { t(iter64(t, s, (n - 1) as nat)) }
}
pub open spec fn iter32(t: spec_fn(Seq<u32>) -> Seq<u32>, s: Seq<u32>, n: nat) -> Seq<u32> decreases n {
    if n == 0 { s } else { t(iter32(t, s, (n - 1) as nat)) }
}

// ---------------- jump polynomials (C06) ----------------
pub open spec fn xorv64(a: Seq<u64>, b: Seq<u64>) -> Seq<u64> { Seq::new(a.len(), |i: int| a[i] ^ b[i]) }
pub open spec fn xorv32(a: Seq<u32>, b: Seq<u32>) -> Seq<u32> { Seq::new(a.len(), |i: int| a[i] ^ b[i]) }
pub open spec fn zeros64(n: nat) -> Seq<u64> { Seq::new(n, |i: int| 0u64) }
pub open spec fn zeros32(n: nat) -> Seq<u32> { Seq::new(n, |i: int| 0u32) }
pub open spec fn bit64(j: Seq<u64>, k: nat) -> bool { (j[(k / 64) as int] & (1u64 << ((k % 64) as u64))) != 0 }
pub open spec fn bit32(j: Seq<u32>, k: nat) -> bool { (j[(k / 32) as int] & (1u32 << ((k % 32) as u32))) != 0 }
// poly(J, s, n) = XOR over k < n with bit k of J set of T^k(s):  the value of the polynomial J(x) mod x^n, evaluated at T, applied to s
pub open spec fn poly64(t: spec_fn(Seq<u64>) -> Seq<u64>, j: Seq<u64>, s: Seq<u64>, n: nat) -> Seq<u64> decreases n {
    if n == 0 { zeros64(s.len()) } else {
        let acc = poly64(t, j, s, (n - 1) as nat);
        if bit64(j, (n - 1) as nat) { xorv64(acc, iter64(t, s, (n - 1) as nat)) } else { acc }
    }
}
pub open spec fn poly32(t: spec_fn(Seq<u32>) -> Seq<u32>, j: Seq<u32>, s: Seq<u32>, n: nat) -> Seq<u32> decreases n {
    if n == 0 { zeros32(s.len()) } else {
        let acc = poly32(t, j, s, (n - 1) as nat);
        if bit32(j, (n - 1) as nat) { xorv32(acc, iter32(t, s, (n - 1) as nat)) } else { acc }
    }
}
pub proof fn lemma_iter64_step(t: spec_fn(Seq<u64>) -> Seq<u64>, s: Seq<u64>, n: nat)
    ensures iter64(t, s, n + 1) == t(iter64(t, s, n))
{ reveal_with_fuel(iter64, 2); }
pub proof fn lemma_iter32_step(t: spec_fn(Seq<u32>) -> Seq<u32>, s: Seq<u32>, n: nat)
    ensures iter32(t, s, n + 1) == t(iter32(t, s, n))
{ reveal_with_fuel(iter32, 2); }
pub proof fn lemma_poly64_step(t: spec_fn(Seq<u64>) -> Seq<u64>, j: Seq<u64>, s: Seq<u64>, n: nat)
    ensures poly64(t, j, s, n + 1) == (if bit64(j, n) { xorv64(poly64(t, j, s, n), iter64(t, s, n)) } else { poly64(t, j, s, n) })
{ reveal_with_fuel(poly64, 2); }
pub proof fn lemma_poly32_step(t: spec_fn(Seq<u32>) -> Seq<u32>, j: Seq<u32>, s: Seq<u32>, n: nat)
    ensures poly32(t, j, s, n + 1) == (if bit32(j, n) { xorv32(poly32(t, j, s, n), iter32(t, s, n)) } else { poly32(t, j, s, n) })
{ reveal_with_fuel(poly32, 2); }

//@JREF@
}
