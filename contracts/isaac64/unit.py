"""Verus unit `isaac64`: the 64-bit twin of contracts/isaac (same builder, variant='64')."""
import importlib.util
import os

_p = os.path.join(os.path.dirname(__file__), '..', 'isaac', 'unit.py')
_spec = importlib.util.spec_from_file_location('contracts_isaac_unit_shared', _p)
_m = importlib.util.module_from_spec(_spec)
_spec.loader.exec_module(_m)


def build(features=()):
    return _m.build(features=features, variant='64')
