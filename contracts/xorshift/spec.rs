// Marsaglia, "Xorshift RNGs" (2003), p.5:  unsigned long xor128(){ static unsigned long x=123456789,y=362436069,z=521288629,w=88675123;
//   unsigned long t; t=(x^(x<<11)); x=y; y=z; z=w; return( w=(w^(w>>19))^(t^(t>>8)) ); }
pub mod spec {
use vstd::prelude::*;
use crate::shims::*;
pub open spec fn xor128_next(s: Seq<u32>) -> Seq<u32> {
    let t = s[0] ^ (s[0] << 11u32);
    seq![s[1], s[2], s[3], (s[3] ^ (s[3] >> 19u32)) ^ (t ^ (t >> 8u32))]
}
pub open spec fn xor128_out(s: Seq<u32>) -> u32 { xor128_next(s)[3] }
pub open spec fn iter32(t: spec_fn(Seq<u32>) -> Seq<u32>, s: Seq<u32>, n: nat) -> Seq<u32> decreases n {
    if n == 0 { s } else { t(iter32(t, s, (n - 1) as nat)) }
}
// state of the source after k draws of one 16-byte block each (for from_rng's redraw loop)
pub open spec fn draws<R: crate::rand_core::FillView>(v: R::V, k: nat) -> R::V decreases k {
    if k == 0 { v } else { R::sfill(draws::<R>(v, (k - 1) as nat), 16).1 }
}
pub open spec fn block<R: crate::rand_core::FillView>(v: R::V, k: nat) -> Seq<u8> { R::sfill(draws::<R>(v, k), 16).0 }
pub open spec fn tdraws<R: crate::rand_core::TryFill>(v: R::TV, k: nat) -> R::TV decreases k {
    if k == 0 { v } else { R::stry(tdraws::<R>(v, (k - 1) as nat), 16).1 }
}
pub open spec fn tblock<R: crate::rand_core::TryFill>(v: R::TV, k: nat) -> Result<Seq<u8>, R::Error> { R::stry(tdraws::<R>(v, k), 16).0 }
pub open spec fn tzero<R: crate::rand_core::TryFill>(v: R::TV, j: nat) -> bool { match tblock::<R>(v, j) { Ok(b) => all_zero(b), Err(_) => false } }
pub open spec fn tbytes<R: crate::rand_core::TryFill>(v: R::TV, j: nat) -> Seq<u8> { match tblock::<R>(v, j) { Ok(b) => b, Err(_) => Seq::empty() } }
pub uninterp spec fn pcg32_default_seed(x: u64) -> Seq<u32>;
pub open spec fn bad_seed() -> Seq<u32> { seq![0x0BAD5EEDu32, 0x0BAD5EEDu32, 0x0BAD5EEDu32, 0x0BAD5EEDu32] }

pub proof fn lemma_words32_16(b: Seq<u8>) requires b.len() == 16
    ensures crate::rand_core::le::words32(b) =~= seq![from_le32(seq![b[0], b[1], b[2], b[3]]), from_le32(seq![b[4], b[5], b[6], b[7]]),
                                  from_le32(seq![b[8], b[9], b[10], b[11]]), from_le32(seq![b[12], b[13], b[14], b[15]])]
{
    assert(b.subrange(0, 4) =~= seq![b[0], b[1], b[2], b[3]]);
    assert(b.subrange(4, 8) =~= seq![b[4], b[5], b[6], b[7]]);
    assert(b.subrange(8, 12) =~= seq![b[8], b[9], b[10], b[11]]);
    assert(b.subrange(12, 16) =~= seq![b[12], b[13], b[14], b[15]]);
}

// C07 residue / C08: the xor128 step maps only the zero state to zero (so a seeded generator never reaches the all-zero state)
pub proof fn lemma_xor128_zero_only_from_zero(s: Seq<u32>)
    requires s.len() == 4, xor128_next(s) =~= seq![0u32, 0u32, 0u32, 0u32]
    ensures s =~= seq![0u32, 0u32, 0u32, 0u32]
{
    let (x, y, z, w) = (s[0], s[1], s[2], s[3]);
    let n = xor128_next(s);
    assert(n[0] == 0 && n[1] == 0 && n[2] == 0 && n[3] == 0) by { let zz = seq![0u32, 0u32, 0u32, 0u32]; assert(zz[0] == 0 && zz[1] == 0 && zz[2] == 0 && zz[3] == 0); }
    assert((y == 0u32 && z == 0u32 && w == 0u32 && ((w ^ (w >> 19u32)) ^ ((x ^ (x << 11u32)) ^ ((x ^ (x << 11u32)) >> 8u32))) == 0u32) ==> x == 0u32) by (bit_vector);
}
}
