"""Verus unit `xorshift`: rand_xorshift::XorShiftRng (C04, C05, C08, C09, C10, C14)."""
import os
import re

from vf.unit import Unit
from vf.rs import AnchorLost
from vf.weave import Fn, C, Loop, Insert, entry, before, after, tail, lit
from vf import dialect
from vf.common import rand_core_impls_text, SHIMS, PREAMBLE

HERE = os.path.dirname(__file__)

VIEW = 'seq![%s.x.0, %s.y.0, %s.z.0, %s.w.0]'


def v(b):
    return VIEW % (b, b, b, b)


def d3_from_rng(s, log):
    s2 = s.replace('fn from_rng(rng: &mut impl RngCore) -> Self', 'fn from_rng<R: Fill>(rng: &mut R) -> Self')
    s2 = s2.replace('fn try_from_rng<R: TryRngCore>(', 'fn try_from_rng<R: TryFill>(')
    if s2 == s:
        raise AnchorLost('D3: from_rng/try_from_rng signature not as expected')
    log.hit('D3')
    return s2


def build(features=()):
    u = Unit('xorshift')
    cr = u.crate('rand_xorshift', features=features)
    u.raw(open(os.path.join(SHIMS, 'std.rs')).read())
    u.raw(open(os.path.join(SHIMS, 'wrapping.rs')).read())
    u.raw('pub mod shims2 { pub use crate::wrapping::Wrapping; }')
    rc = open(os.path.join(SHIMS, 'rand_core.rs')).read()
    u.raw(rc.replace('//@IMPLS@', rand_core_impls_text(u)))
    u.lemma_file(open(os.path.join(HERE, 'spec.rs')).read(), 'C08', prefix='xorshift.')
    u.raw('pub mod xorshift {\n' + PREAMBLE + 'use crate::wrapping::Wrapping as w;\nuse crate::rand_core::{impls, le};\n')
    u.struct(cr, 'XorShiftRng')
    u.raw('''
impl RngView for XorShiftRng {
    type V = Seq<u32>;
    open spec fn v(&self) -> Seq<u32> { %s }
    open spec fn s32(v: Seq<u32>) -> (u32, Seq<u32>) { (xor128_out(v), xor128_next(v)) }
    open spec fn s64(v: Seq<u32>) -> (u64, Seq<u32>) { let x = xor128_out(v); let v1 = xor128_next(v); let y = xor128_out(v1); ((((y as u64) << 32u64) | (x as u64)), xor128_next(v1)) }
}
impl FillView for XorShiftRng {
    open spec fn sfill(v: Seq<u32>, n: nat) -> (Seq<u8>, Seq<u32>) { fill_via_next::<Self>(v, n) }
}
impl SeedView for XorShiftRng {
    open spec fn seed_len() -> nat { 16 }
    // C08: the all-zero seed becomes four words 0x0BAD5EED; every other seed is used verbatim (LE words)
    open spec fn from_seed_v(b: Seq<u8>) -> Seq<u32> { if all_zero(b) { bad_seed() } else { words32(b) } }
    // rand_core's default seed_from_u64 (PCG32 expansion) is dependency code: decided by Kani (C09), left uninterpreted here
    open spec fn seed_from_u64_v(x: u64) -> Seq<u32> { crate::spec::pcg32_default_seed(x) }
}''' % v('self'))
    u.raw('''
// C08/C09 for the overridden from_rng: k all-zero blocks are drawn and discarded, block k is the first that is not all
// zero and becomes the state verbatim (LE words); the source is left advanced by exactly k+1 blocks of 16 bytes
pub open spec fn from_rng_draws<R: FillView>(v0: R::V, k: nat, vfinal: R::V) -> bool {
    (forall |j: nat| j < k ==> all_zero(#[trigger] block::<R>(v0, j))) && !all_zero(block::<R>(v0, k)) && vfinal == draws::<R>(v0, k + 1)
}
// try_from_rng: the same on success; if the source fails at its (k+1)-th call the source's error is returned, never a generator
pub open spec fn try_draws<R: TryFill>(v0: R::TV, k: nat, vfinal: R::TV) -> bool {
    (forall |j: nat| j < k ==> #[trigger] tzero::<R>(v0, j)) && vfinal == tdraws::<R>(v0, k + 1)
}
pub open spec fn try_result<R: TryFill>(v0: R::TV, k: nat, r: Result<XorShiftRng, R::Error>) -> bool {
    match r {
        Ok(g) => tblock::<R>(v0, k).is_ok() && !all_zero(tbytes::<R>(v0, k)) && g.v() =~= words32(tbytes::<R>(v0, k)),
        Err(e) => tblock::<R>(v0, k) == Err::<Seq<u8>, R::Error>(e),
    }
}''')
    rp = 'RngCore@XorShiftRng'
    u.impl(cr, rp, header='impl Next32 for XorShiftRng', fns=['next_u32'], contracts={
        'next_u32': Fn(None, ret='r', builtin_props='C14 C18', trait_props='C05', ensures=[
            C('xorshift.next_u32.out', 'C04 C05', 'r == xor128_out(%s)' % v('old(self)')),
            C('xorshift.next_u32.state', 'C04 C05 C10', '%s =~= xor128_next(%s)' % (v('final(self)'), v('old(self)')))],
            inserts=[tail('proof { assert(@0@); }', clauses=[C('xorshift.next_u32.state_words', 'C04 C05 C10', '%s =~= xor128_next(%s)' % (v('self'), v('old(self)')))])])})
    u.impl(cr, rp, header='impl Next64 for XorShiftRng', fns=['next_u64'], contracts={
        'next_u64': Fn(None, ret='r', builtin_props='C14 C18', trait_props='C05', ensures=[
            C('xorshift.next_u64.via_u32', 'C05', 'r == via_u32::<Self>(%s).0' % v('old(self)')),
            C('xorshift.next_u64.two_steps', 'C05 C10', '%s =~= xor128_next(xor128_next(%s))' % (v('final(self)'), v('old(self)')))])})
    u.impl(cr, rp, header='impl Fill for XorShiftRng', fns=['fill_bytes'], contracts={'fill_bytes': Fn(None, builtin_props='C14 C18', trait_props='C05')})
    sp = 'SeedableRng@XorShiftRng'
    u.impl(cr, sp, header='impl SeedableRng for XorShiftRng', keep=['type Seed'], extra='''
    open spec fn seed_bytes(s: [u8; 16]) -> Seq<u8> { s@ }
    #[verifier::external_body]
    fn seed_from_u64(x: u64) -> Self { unimplemented!() }
''', fns=['from_seed'], contracts={
        'from_seed': Fn(None, ret='r', builtin_props='C14 C18', trait_props='C08 C04',
                        sig_rewrites=[(r'seed: Self::Seed', 'seed: [u8; 16]')],
                        ensures=[C('xorshift.from_seed.zero_remapped', 'C08', 'all_zero(seed@) ==> r.v() =~= bad_seed()'),
                                 C('xorshift.from_seed.verbatim_le', 'C04 C08', '!all_zero(seed@) ==> r.v() =~= words32(seed@)'),
                                 C('xorshift.from_seed.never_zero', 'C08', 'r.v() != seq![0u32, 0u32, 0u32, 0u32]')],
                        inserts=[after(lit('le::read_u32_into(&seed, &mut seed_u32);'),
                                       'proof { assert(seed_u32@ =~= words32(seed@)); lemma_words32_zero(seed@); }'),
                                 before(r'XorShiftRng\s*\{\s*x:', 'proof { assert(seq![seed_u32[0], seed_u32[1], seed_u32[2], seed_u32[3]] =~= (if all_zero(seed@) { bad_seed() } else { words32(seed@) })); }')])})
    u.impl(cr, sp, header='impl FromRng for XorShiftRng', fns=['from_rng', 'try_from_rng'], contracts={
        'from_rng': Fn(None, ret='r', builtin_props='C14 C18', dialect=[d3_from_rng],
                       attrs=['#[verifier::exec_allows_no_decreases_clause]'],
                       ensures=[C('xorshift.from_rng.redraw_until_nonzero', 'C08 C09',
                                  'exists |k: nat| #[trigger] from_rng_draws::<R>(old(rng).v(), k, final(rng).v()) && r.v() =~= words32(block::<R>(old(rng).v(), k))'),
                                C('xorshift.from_rng.never_zero', 'C08', 'r.v() != seq![0u32, 0u32, 0u32, 0u32]')],
                       loops={0: Loop(except_break=[
                           C('xorshift.from_rng.inv.zero_prefix', 'C08 C09', 'forall |j: nat| j < k ==> all_zero(#[trigger] block::<R>(old(rng).v(), j))'),
                           C('xorshift.from_rng.inv.state', 'C08 C09', 'rng.v() == draws::<R>(old(rng).v(), k)'),
                       ], ensures=[
                           C('xorshift.from_rng.inv.exit', 'C08 C09', 'k >= 1 && b@ == block::<R>(old(rng).v(), (k - 1) as nat) && !all_zero(b@) && rng.v() == draws::<R>(old(rng).v(), k) '
                                                                 '&& (forall |j: nat| j < (k - 1) as nat ==> all_zero(#[trigger] block::<R>(old(rng).v(), j)))')])},
                       inserts=[after(lit('let mut b = [0u8; 16];'), 'let ghost mut k: nat = 0;'),
                                after(lit('rng.fill_bytes(b.as_mut());'), 'proof { k = k + 1; assert(draws::<R>(old(rng).v(), k) == R::sfill(draws::<R>(old(rng).v(), (k - 1) as nat), 16).1); }'),
                                before(r'XorShiftRng\s*\{\s*x:', 'proof { lemma_words32_16(b@); lemma_words32_zero(b@); let kk = (k - 1) as nat; assert(from_rng_draws::<R>(old(rng).v(), kk, rng.v())); }')]),
        'try_from_rng': Fn(None, ret='r', builtin_props='C14 C18', dialect=[d3_from_rng],
                           attrs=['#[verifier::exec_allows_no_decreases_clause]'],
                           ensures=[C('xorshift.try_from_rng.ok_or_source_error', 'C08 C09',
                                      'exists |k: nat| #[trigger] try_draws::<R>(old(rng).tv(), k, final(rng).tv()) && try_result::<R>(old(rng).tv(), k, r)'),
                                    C('xorshift.try_from_rng.never_zero', 'C08', 'match r { Ok(g) => g.v() != seq![0u32, 0u32, 0u32, 0u32], Err(_) => true }')],
                           loops={0: Loop(except_break=[
                               C('xorshift.try_from_rng.inv.zero_prefix', 'C08 C09', 'forall |j: nat| j < k ==> #[trigger] tzero::<R>(old(rng).tv(), j)'),
                               C('xorshift.try_from_rng.inv.state', 'C08 C09', 'rng.tv() == tdraws::<R>(old(rng).tv(), k)'),
                           ], ensures=[
                               C('xorshift.try_from_rng.inv.exit', 'C08 C09', 'k >= 1 && tblock::<R>(old(rng).tv(), (k - 1) as nat) == Ok::<Seq<u8>, R::Error>(b@) && !all_zero(b@) && rng.tv() == tdraws::<R>(old(rng).tv(), k) '
                                                                         '&& (forall |j: nat| j < (k - 1) as nat ==> #[trigger] tzero::<R>(old(rng).tv(), j))')])},
                           inserts=[after(lit('let mut b = [0u8; 16];'), 'let ghost mut k: nat = 0;'),
                                    before(lit('rng.try_fill_bytes(b.as_mut())?;'), 'proof { assert(tdraws::<R>(old(rng).tv(), k + 1) == R::stry(tdraws::<R>(old(rng).tv(), k), 16).1); assert(try_draws::<R>(old(rng).tv(), k, R::stry(tdraws::<R>(old(rng).tv(), k), 16).1)); }'),
                                    after(lit('rng.try_fill_bytes(b.as_mut())?;'), 'proof { k = k + 1; }'),
                                    before(r'Ok\(XorShiftRng', 'proof { lemma_words32_16(b@); lemma_words32_zero(b@); let kk = (k - 1) as nat; assert(try_draws::<R>(old(rng).tv(), kk, rng.tv())); }')]),
    })
    # derived Clone / PartialEq
    u.impl(cr, 'Clone@XorShiftRng', header='impl Clone for XorShiftRng', fns=['clone'], contracts={
        'clone': Fn(None, ret='r', builtin_props='C14 C18', ensures=[C('xorshift.clone.all_fields', 'C10', 'r.x == self.x && r.y == self.y && r.z == self.z && r.w == self.w')])})
    u.raw('impl vstd::std_specs::cmp::PartialEqSpecImpl for XorShiftRng {\n'
          '    open spec fn obeys_eq_spec() -> bool { true }\n'
          '    open spec fn eq_spec(&self, other: &XorShiftRng) -> bool { self.x.0 == other.x.0 && self.y.0 == other.y.0 && self.z.0 == other.z.0 && self.w.0 == other.w.0 }\n}')
    u.impl(cr, 'PartialEq@XorShiftRng', header='impl PartialEq for XorShiftRng', fns=['eq'], contracts={
        'eq': Fn(None, ret='r', builtin_props='C14 C18', trait_props='C10', ensures=[
            C('xorshift.eq.iff_all_fields', 'C10', 'r == (self.x.0 == other.x.0 && self.y.0 == other.y.0 && self.z.0 == other.z.0 && self.w.0 == other.w.0)')])})
    u.skip('Debug@XorShiftRng::fmt', 'formatting machinery; C17 is decided by Kani on the real code')
    u.skip('SeedableRng::seed_from_u64 (rand_core default, PCG32)', 'dependency code; C09 Kani harness')
    u.raw('}')
    return u
