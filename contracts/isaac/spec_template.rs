// Bob Jenkins' ISAAC (rand.c, 1996) / ISAAC-64 (isaac64.c), transliterated from the reference C (T6).
//   #define ind(mm,x)  mm[(x >> {IND1}) & 255]
//   #define rngstep(mix,a,b,mm,m,m2,r,x) {{ x = *m; a = (mix) + *(m2++); *(m++) = y = ind(mm,x) + a + b; *(r++) = b = ind(mm,y>>RANDSIZL) + x; }}
//   isaac(): a = aa; b = bb + (++cc); 256 rngsteps with mix = {MIXDOC}, i mod 4
pub mod spec {{
use vstd::prelude::*;
use crate::shims::*;
use crate::wrapping::Wrapping;

pub type WT = Wrapping<{T}>;
pub open spec fn ad(a: {T}, b: {T}) -> {T} {{ a.wrapping_add(b) }}
pub open spec fn sb(a: {T}, b: {T}) -> {T} {{ a.wrapping_sub(b) }}
pub struct St {{ pub mm: Seq<WT>, pub aa: {T}, pub bb: {T}, pub rr: Seq<{T}> }}
// the `mix` argument of the four rngstep lines
pub open spec fn shmix(aa: {T}, i: int) -> {T} {{
    if i % 4 == 0 {{ {MIX0} }} else if i % 4 == 1 {{ {MIX1} }} else if i % 4 == 2 {{ {MIX2} }} else {{ {MIX3} }}
}}
// step i (0 <= i < 256) of one isaac() call; results are stored so that they are handed out in the reference order
// (the reference consumes randrsl[] from the top: rand() returns randrsl[--randcnt])
pub open spec fn isaac_step(s: St, i: int) -> St {{
    let x = s.mm[i].0;
    let aa = ad(shmix(s.aa, i), s.mm[(i + 128) % 256].0);
    let y = ad(ad(aa, s.bb), s.mm[((x >> {IND1}{TS}) as int) % 256].0);
    let mm = s.mm.update(i, Wrapping(y));
    let bb = ad(x, mm[((y >> {IND2}{TS}) as int) % 256].0);
    St {{ mm, aa, bb, rr: s.rr.update(255 - i, bb) }}
}}
pub open spec fn isaac_steps(s: St, n: nat) -> St decreases n {{
    if n == 0 {{ s }} else {{ isaac_step(isaac_steps(s, (n - 1) as nat), (n - 1) as int) }}
}}
// one isaac() call from (mm, aa, bb, cc): cc += 1; bb += cc; 256 steps
pub open spec fn isaac_block(mm: Seq<WT>, aa: {T}, bb: {T}, cc: {T}, rr: Seq<{T}>) -> St {{
    isaac_steps(St {{ mm, aa, bb: ad(bb, ad(cc, 1)), rr }}, 256)
}}

// ---- randinit ----
{MIXSPEC}
pub open spec fn add8(v: Seq<{T}>, m: Seq<WT>, base: int) -> Seq<{T}> {{
    seq![ad(v[0], m[base].0), ad(v[1], m[base + 1].0), ad(v[2], m[base + 2].0), ad(v[3], m[base + 3].0),
         ad(v[4], m[base + 4].0), ad(v[5], m[base + 5].0), ad(v[6], m[base + 6].0), ad(v[7], m[base + 7].0)]
}}
pub open spec fn put8(m: Seq<WT>, base: int, v: Seq<{T}>) -> Seq<WT> {{
    m.update(base, Wrapping(v[0])).update(base + 1, Wrapping(v[1])).update(base + 2, Wrapping(v[2])).update(base + 3, Wrapping(v[3]))
     .update(base + 4, Wrapping(v[4])).update(base + 5, Wrapping(v[5])).update(base + 6, Wrapping(v[6])).update(base + 7, Wrapping(v[7]))
}}
// k blocks of eight words of one pass: a..h += m[i..i+8]; mix; m[i..i+8] = a..h
pub open spec fn blocks(v: Seq<{T}>, m: Seq<WT>, k: nat) -> (Seq<{T}>, Seq<WT>) decreases k {{
    if k == 0 {{ (v, m) }} else {{
        let (v1, m1) = blocks(v, m, (k - 1) as nat);
        let v2 = mix_spec(add8(v1, m1, 8 * (k - 1)));
        (v2, put8(m1, 8 * (k - 1), v2))
    }}
}}
pub open spec fn passes(v: Seq<{T}>, m: Seq<WT>, r: nat) -> (Seq<{T}>, Seq<WT>) decreases r {{
    if r == 0 {{ (v, m) }} else {{ let (v1, m1) = passes(v, m, (r - 1) as nat); blocks(v1, m1, 32) }}
}}
// a..h after "a=b=...=h=golden ratio; for (i=0; i<4; ++i) mix(a,...,h);"
pub open spec fn golden() -> {T} {{ {GOLD} }}
pub open spec fn mixn(v: Seq<{T}>, n: nat) -> Seq<{T}> decreases n {{ if n == 0 {{ v }} else {{ mix_spec(mixn(v, (n - 1) as nat)) }} }}
pub open spec fn golden4() -> Seq<{T}> {{ seq![{G4}] }}
pub proof fn lemma_golden4()
    ensures golden4() =~= mixn(seq![golden(), golden(), golden(), golden(), golden(), golden(), golden(), golden()], 4)
{{
    let g = golden();
    let v0 = seq![g, g, g, g, g, g, g, g];
    reveal_with_fuel(mixn, 5);
    let v1 = mix_spec(v0); let v2 = mix_spec(v1); let v3 = mix_spec(v2); let v4 = mix_spec(v3);
    assert(mixn(v0, 4) == v4);
{G4PROOF}
}}
// randinit(flag = TRUE) with randrsl[] = seed slots: two passes; seed_from_u64 / unseeded use: one pass over the key
pub open spec fn randinit(slots: Seq<WT>, rounds: nat) -> Seq<WT> {{ passes(golden4(), slots, rounds).1 }}
pub open spec fn zero_slots() -> Seq<WT> {{ Seq::new(256, |i: int| Wrapping(0{TS})) }}
}}
