"""Verus units `isaac` / `isaac64`: rand_isaac::{IsaacCore, Isaac64Core} (C03, C09, C14)."""
import os
import re

from vf.unit import Unit
from vf.rs import AnchorLost
from vf.weave import Fn, C, Loop, Insert, entry, before, after, tail, lit
from vf import dialect
from vf.common import SHIMS

HERE = os.path.dirname(__file__)

MIX32 = '''// #define mix(a,b,c,d,e,f,g,h) { a^=b<<11; d+=a; b+=c; b^=c>>2; e+=b; c+=d; c^=d<<8; f+=c; d+=e; d^=e>>16; g+=d; e+=f;
//                               e^=f<<10; h+=e; f+=g; f^=g>>4; a+=f; g+=h; g^=h<<8; b+=g; h+=a; h^=a>>9; c+=h; a+=b; }
pub open spec fn mix_spec(v: Seq<u32>) -> Seq<u32> {
    let (a, b, c, d, e, f, g, h) = (v[0], v[1], v[2], v[3], v[4], v[5], v[6], v[7]);
    let a = a ^ (b << 11u32); let d = ad(d, a); let b = ad(b, c);
    let b = b ^ (c >> 2u32);  let e = ad(e, b); let c = ad(c, d);
    let c = c ^ (d << 8u32);  let f = ad(f, c); let d = ad(d, e);
    let d = d ^ (e >> 16u32); let g = ad(g, d); let e = ad(e, f);
    let e = e ^ (f << 10u32); let h = ad(h, e); let f = ad(f, g);
    let f = f ^ (g >> 4u32);  let a = ad(a, f); let g = ad(g, h);
    let g = g ^ (h << 8u32);  let b = ad(b, g); let h = ad(h, a);
    let h = h ^ (a >> 9u32);  let c = ad(c, h); let a = ad(a, b);
    seq![a, b, c, d, e, f, g, h]
}'''
MIX64 = '''// #define mix(a,b,c,d,e,f,g,h) { a-=e; f^=h>>9; h+=a; b-=f; g^=a<<9; a+=b; c-=g; h^=b>>23; b+=c; d-=h; a^=c<<15; c+=d;
//                               e-=a; b^=d>>14; d+=e; f-=b; c^=e<<20; e+=f; g-=c; d^=f>>17; f+=g; h-=d; e^=g<<14; g+=h; }
pub open spec fn mix_spec(v: Seq<u64>) -> Seq<u64> {
    let (a, b, c, d, e, f, g, h) = (v[0], v[1], v[2], v[3], v[4], v[5], v[6], v[7]);
    let a = sb(a, e); let f = f ^ (h >> 9u64);  let h = ad(h, a);
    let b = sb(b, f); let g = g ^ (a << 9u64);  let a = ad(a, b);
    let c = sb(c, g); let h = h ^ (b >> 23u64); let b = ad(b, c);
    let d = sb(d, h); let a = a ^ (c << 15u64); let c = ad(c, d);
    let e = sb(e, a); let b = b ^ (d >> 14u64); let d = ad(d, e);
    let f = sb(f, b); let c = c ^ (e << 20u64); let e = ad(e, f);
    let g = sb(g, c); let d = d ^ (f >> 17u64); let f = ad(f, g);
    let h = sb(h, d); let e = e ^ (g << 14u64); let g = ad(g, h);
    seq![a, b, c, d, e, f, g, h]
}'''

VAR = {
    '32': dict(unit='isaac', mod='isaac', core='IsaacCore', T='u32', TS='u32', W='w32', bits=32, IND1=2, IND2=10,
               MIX0='aa ^ (aa << 13u32)', MIX1='aa ^ (aa >> 6u32)', MIX2='aa ^ (aa << 2u32)', MIX3='aa ^ (aa >> 16u32)',
               MIXDOC='a^(a<<13), a^(a>>6), a^(a<<2), a^(a>>16)', MIXSPEC=MIX32, GOLD='0x9e3779b9u32',
               G4=['0x1367df5a', '0x95d90059', '0xc3163e4b', '0x0f421ad8', '0xd92a4a78', '0xa51a3c49', '0xc4efea1b', '0x30609119'],
               seedwords=8, readfn='read_u32_into', words='words32'),
    '64': dict(unit='isaac64', mod='isaac64', core='Isaac64Core', T='u64', TS='u64', W='w64', bits=64, IND1=3, IND2=11,
               MIX0='!(aa ^ (aa << 21u64))', MIX1='aa ^ (aa >> 5u64)', MIX2='aa ^ (aa << 12u64)', MIX3='aa ^ (aa >> 33u64)',
               MIXDOC='~(a^(a<<21)), a^(a>>5), a^(a<<12), a^(a>>33)', MIXSPEC=MIX64, GOLD='0x9e3779b97f4a7c13u64',
               G4=['0x647c4677a2884b7c', '0xb9f8b322c73ac862', '0x8c0ea5053d4712a0', '0xb29b2e824a595524',
                   '0x82f053db8355e0ce', '0x48fe4a0fa5a09315', '0xae985bf2cbfc89ed', '0x98f5704f6c44c0ab'],
               seedwords=4, readfn='read_u64_into', words='words64'),
}

RS_ENTRY = entry('proof { assert(RAND_SIZE == 256) by (compute_only); }')

RAND_CORE = '''
// ---- stand-ins for the rand_core items the ISAAC cores use (D3) ----
pub mod rand_core {
use vstd::prelude::*;
pub trait BlockRngCore { type Item; type Results; fn generate(&mut self, results: &mut Self::Results); }
pub trait SeedableRng: Sized { type Seed; fn seed_from_u64(seed: u64) -> Self; }
}
'''


def spec_text(v):
    t = open(os.path.join(HERE, 'spec_template.rs')).read()
    g4 = ', '.join(x + v['T'] for x in v['G4'])
    proof = '    assert(v4 =~= golden4()) by {\n'
    proof += '        assert(mix_spec(mix_spec(mix_spec(mix_spec(seq![%s])))) =~= seq![%s]) by (compute);\n    }' % (', '.join([v['GOLD']] * 8), g4)
    return t.format(T=v['T'], TS=v['TS'], IND1=v['IND1'], IND2=v['IND2'], MIX0=v['MIX0'], MIX1=v['MIX1'], MIX2=v['MIX2'], MIX3=v['MIX3'],
                    MIXDOC=v['MIXDOC'], MIXSPEC=v['MIXSPEC'], GOLD=v['GOLD'], G4=g4, G4PROOF=proof)


def d5(s, log):
    s2 = s.replace('use core::num::Wrapping as w;', 'use crate::wrapping::Wrapping as w;')
    if s2 != s:
        log.hit('D5')
    return s2


def build(features=(), variant='32'):
    v = VAR[variant]
    u = Unit(v['unit'])
    cr = u.crate('rand_isaac', features=features)
    T, W, mod, core = v['T'], v['W'], v['mod'], v['core']
    p = 'i' + variant
    u.raw(open(os.path.join(SHIMS, 'std.rs')).read())
    u.raw(open(os.path.join(SHIMS, 'wrapping.rs')).read())
    u.raw(RAND_CORE)
    if variant == '64':
        # `(v >> amount).0 as usize % RAND_SIZE` casts u64 to usize: lossless on the 64-bit targets this is verified for;
        # on a 32-bit target the cast truncates modulo 2^32, which leaves `% 256` unchanged (not machine-checked)
        u.raw('global size_of usize == 8;')
        u.assumptions.append('isaac64: verified for 64-bit targets (global size_of usize == 8); on 32-bit targets `x as usize % 256` is unchanged by the truncation (argued, not machine-checked)')
    u.lemma_file(spec_text(v), 'C03', prefix=p + '.')

    # ---- isaac_array --------------------------------------------------------------------------------------
    u.raw('pub mod isaac_array {\nuse vstd::prelude::*;\n')
    u.item(cr, 'isaac_array::RAND_SIZE_LEN')
    u.item(cr, 'isaac_array::RAND_SIZE')
    u.struct(cr, 'isaac_array::IsaacArray')
    u.impl(cr, 'isaac_array::Deref@IsaacArray', header='impl<T> ::core::ops::Deref for IsaacArray<T>', keep=['type Target'], fns=['deref'], contracts={
        'deref': Fn(None, ret='r', builtin_props='C14 C18', ensures=[C(p + '.isaac_array.deref', 'C03 C05', '*r == self.inner')])})
    u.impl(cr, 'isaac_array::DerefMut@IsaacArray', header='impl<T> ::core::ops::DerefMut for IsaacArray<T>', fns=['deref_mut'], contracts={
        'deref_mut': Fn(None, ret='r', builtin_props='C14 C18', ensures=[C(p + '.isaac_array.deref_mut', 'C03 C05', '*r == old(self).inner && *final(r) == final(self).inner')])})
    u.skip('isaac_array::{AsRef, AsMut, Default, PartialEq, Clone}@IsaacArray', 'slice views `&self.inner[..]`, slice PartialEq, generic Default: Kani harnesses isaac_array_glue (C10, C11)')
    u.raw('}')

    u.raw('pub mod %s {\nuse vstd::prelude::*;\nuse crate::shims::*;\nuse crate::rand_core::*;\nuse crate::spec::*;\n' % mod)
    for it in (mod + '::use crate::isaac_array::IsaacArray', mod + '::use core::num::Wrappingasw'):
        if it in cr.index:
            u.item(cr, it, rewrite=[(r'use core::num::Wrapping as w;', 'use crate::wrapping::Wrapping as w;')])
    u.log.hit('D5')
    u.item(cr, mod + '::' + W)
    u.item(cr, mod + '::RAND_SIZE_LEN')
    u.item(cr, mod + '::RAND_SIZE')
    u.struct(cr, mod + '::' + core)

    # ---- generate ------------------------------------------------------------------------------------------
    gp = mod + '::BlockRngCore@' + core + '::generate'
    u.nested(gp + '::ind', Fn(None, ret='r', builtin_props='C14 C18',
                              requires=[C(p + '.ind.amount', '', 'amount < %d' % v['bits'])],
                              ensures=[C(p + '.ind.spec', 'C03', 'r == mem@[((v.0 >> (amount as %s)) as int) %% 256]' % T)],
                              inserts=[RS_ENTRY]))
    step_post = ('({ let i = (base + m) as int; let mm0 = old(mem)@; let x = mm0[i].0;\n'
                 '   let aa = ad(mix.0, mm0[(i + 128) %% 256].0);\n'
                 '   let y = ad(ad(aa, old(b).0), mm0[((x >> %d%s) as int) %% 256].0);\n'
                 '   let mm = mm0.update(i, w(y)); let bb = ad(x, mm[((y >> %d%s) as int) %% 256].0);\n'
                 '   final(mem)@ == mm && final(a).0 == aa && final(b).0 == bb && final(results)@ == old(results)@.update(255 - i, bb) })') % (v['IND1'], T, v['IND2'], T)
    u.nested(gp + '::rngstep', Fn(None, builtin_props='C14 C18',
                                  requires=[C(p + '.rngstep.idx', '', 'base + m < 256 && base + m2 < 256 && base + m2 == (base + m + 128) % 256')],
                                  ensures=[C(p + '.rngstep.spec', 'C03', step_post)], inserts=[RS_ENTRY]))
    st_eq = 'self.mem@ == s.mm && a.0 == s.aa && b.0 == s.bb && results.inner@ == s.rr'

    def after_calls(off):
        out = []
        for k in range(4):
            out.append(Insert('after', r'rngstep\(&mut self\.mem,\s*results,[^;]*?i \+ %d,\s*m,\s*m2\);' % k,
                              'proof { let n = (%s + 4 * i0 + %d) as nat; reveal_with_fuel(isaac_steps, 2);\n'
                              '  assert(isaac_steps(s0, n + 1) == isaac_step(isaac_steps(s0, n), n as int)); assert(n as int %% 4 == %d);\n'
                              '  let s = isaac_steps(s0, n + 1); assert(%s); }' % (off, k, k, st_eq), occ=(1 if off == '0' else 2)))
        return out
    gen = Fn(None, builtin_props='C14 C18',
             sig_rewrites=[(r'results: &mut IsaacArray<Self::Item>', 'results: &mut IsaacArray<%s>' % T)],
             ensures=[C(p + '.generate.c', 'C03', 'final(self).c.0 == ad(old(self).c.0, 1)'),
                      C(p + '.generate.block', 'C03', '({ let s = isaac_block(old(self).mem@, old(self).a.0, old(self).b.0, old(self).c.0, old(results).inner@);\n'
                        '   final(self).mem@ == s.mm && final(self).a.0 == s.aa && final(self).b.0 == s.bb && final(results).inner@ == s.rr })')],
             loops={0: Loop(invariants=[C(p + '.generate.first_half', 'C03 C14', 'm == 0 && m2 == 128 && MIDPOINT == 128 && self.c == c_new && ({ let s = isaac_steps(s0, (4 * i0) as nat); %s })' % st_eq)]),
                    1: Loop(invariants=[C(p + '.generate.second_half', 'C03 C14', 'm == 128 && m2 == 0 && MIDPOINT == 128 && self.c == c_new && ({ let s = isaac_steps(s0, (128 + 4 * i0) as nat); %s })' % st_eq)])},
             inserts=[RS_ENTRY, after(lit('let mut b = self.b + self.c;'),
                            'let ghost s0 = St { mm: self.mem@, aa: self.a.0, bb: b.0, rr: results.inner@ }; let ghost c_new = self.c;'),
                      ] + after_calls('0') + after_calls('128'))
    u.impl(cr, mod + '::BlockRngCore@' + core, header='impl BlockRngCore for ' + core, keep=['type Item', 'type Results'], fns=['generate'], contracts={'generate': gen})

    # ---- init ----------------------------------------------------------------------------------------------
    ip = mod + '::impl@' + core + '::init'
    names = 'abcdefgh'
    vec = lambda pre: 'seq![' + ', '.join(pre % n for n in names) + ']'
    u.nested(ip + '::mix', Fn(None, builtin_props='C14 C18',
                              ensures=[C(p + '.mix.spec', 'C03', '%s =~= mix_spec(%s)' % (vec('final(%s).0'), vec('old(%s).0')))]))
    cur = vec('%s.0')
    init = Fn(None, ret='r', builtin_props='C14 C18',
              ensures=[C(p + '.init.randinit', 'C03 C09', 'r.mem@ == randinit(mem@, rounds as nat)'),
                       C(p + '.init.abc_zero', 'C03', 'r.a.0 == 0 && r.b.0 == 0 && r.c.0 == 0')],
              loops={0: Loop(iter_name='itr', invariants=[C(p + '.init.passes', 'C03', 'RAND_SIZE == 256 && ({ let (v, m) = passes(golden4(), mem0, itr.index@ as nat); mem@ == m && %s =~= v })' % cur)]),
                     1: Loop(invariants=[C(p + '.init.blocks', 'C03 C14', 'RAND_SIZE == 256 && ({ let (v, m) = blocks(vp, mp, i0 as nat); mem@ == m && %s =~= v })' % cur)])},
              inserts=[RS_ENTRY, after(r'let mut h = w\([^)]*\);', 'let ghost mem0 = mem@;'),
                       Insert('loopbody', 0, 'let ghost vp = %s; let ghost mp = mem@;' % cur),
                       Insert('afterloop', 1, 'proof { reveal_with_fuel(passes, 2); }'),
                       Insert('loopbody', 1, 'let ghost v1 = %s; let ghost m1 = mem@;' % cur),
                       after(lit('mem[i + 7] = h;'), 'proof { reveal_with_fuel(blocks, 2); let v2 = mix_spec(add8(v1, m1, i as int));\n'
                             '  assert(%s =~= v2); assert(mem@ =~= put8(m1, i as int, v2)); }' % cur),
                       before(r'Self \{ mem,', 'proof { reveal_with_fuel(passes, 2); }')])
    u.impl(cr, mod + '::impl@' + core, header='impl ' + core, fns=['init'], contracts={'init': init})

    # ---- seed_from_u64 (the other constructors go through iterator adapters / unsafe: Kani) ------------------
    if variant == '32':
        key_post = 'r.mem@ == randinit(zero_slots().update(0, w(seed as u32)).update(1, w((seed >> 32u64) as u32)), 1)'
    else:
        key_post = 'r.mem@ == randinit(zero_slots().update(0, w(seed)), 1)'
    sfu = Fn(None, ret='r', builtin_props='C14 C18',
             ensures=[C(p + '.seed_from_u64.key_one_pass', 'C03 C09', key_post + ' && r.a.0 == 0 && r.b.0 == 0 && r.c.0 == 0')],
             inserts=[RS_ENTRY, before(lit('Self::init(key, 1)'), 'proof { assert(key@ =~= zero_slots().update(0, key@[0]).update(1, key@[1])); }' if variant == '32' else
                             'proof { assert(key@ =~= zero_slots().update(0, key@[0])); }')])
    u.impl(cr, mod + '::SeedableRng@' + core, header='impl SeedableRng for ' + core, keep=['type Seed'], fns=['seed_from_u64'], contracts={'seed_from_u64': sfu})
    u.skip(mod + '::SeedableRng@%s::from_seed' % core, '`seed_extended.iter_mut().zip(seed.iter())` (iterator adapters are outside the dialect): Kani harness with a recording init stub (C03/C09)')
    u.skip(mod + '::SeedableRng@%s::{from_rng, try_from_rng}' % core, 'unsafe raw-parts cast of the seed array (T8): Kani harnesses (C09)')
    u.raw('impl vstd::std_specs::cmp::PartialEqSpecImpl for %s {\n'
          '    open spec fn obeys_eq_spec() -> bool { true }\n'
          '    open spec fn eq_spec(&self, other: &%s) -> bool { self.mem@ =~= other.mem@ && self.a == other.a && self.b == other.b && self.c == other.c }\n}' % (core, core))
    u.impl(cr, mod + '::PartialEq@' + core, header='impl PartialEq for ' + core, fns=['eq'], contracts={
        'eq': Fn(None, ret='r', builtin_props='C14 C18', trait_props='C10', ensures=[
            C(p + '.core.eq.iff_all_fields', 'C10', 'r == (self.mem@ =~= other.mem@ && self.a.0 == other.a.0 && self.b.0 == other.b.0 && self.c.0 == other.c.0)')],
            inserts=[entry('proof { assert(RAND_SIZE == 256) by (compute_only); assert(self.mem@.subrange(0, 256) =~= self.mem@); assert(other.mem@.subrange(0, 256) =~= other.mem@); }')])})
    u.impl(cr, mod + '::Clone@' + core, header='impl Clone for ' + core, fns=['clone'], contracts={
        'clone': Fn(None, ret='r', builtin_props='C14 C18', ensures=[
            C(p + '.core.clone.all_fields', 'C10', 'r.mem@ =~= self.mem@ && r.a.0 == self.a.0 && r.b.0 == self.b.0 && r.c.0 == self.c.0')])})
    u.skip(mod + '::%sRng wrappers' % ('Isaac' if variant == '32' else 'Isaac64'), 'thin wrappers over rand_core::block::BlockRng/BlockRng64 (dependency code): Kani (C05, C09, C10)')
    u.raw('}')
    return u
