use crate::{guarded, scripted};
use rand_core::RngCore;
use rand_jitter::JitterRng;
use std::sync::atomic::Ordering;

/// rngs-replay jitter <call> <rounds> <base> <delta,delta,...>
/// call: next_u64 | next_u32 | test_timer | set_rounds_test_timer | fill:<n>
pub fn main(args: &[String]) -> i32 {
    if args.len() < 4 {
        eprintln!("usage: jitter <call> <rounds> <base> <d1,d2,...>");
        return 2;
    }
    let call = args[0].as_str();
    let rounds: u8 = args[1].parse().unwrap();
    let base: u64 = args[2].parse().unwrap();
    let deltas: Vec<u64> = args[3].split(',').map(|s| s.parse::<u64>().unwrap()).collect();
    let (timer, count) = scripted(base, deltas);
    let mut rng = JitterRng::new_with_timer(timer);
    if rounds > 0 {
        rng.set_rounds(rounds);
    }
    let res: Result<String, String> = match call {
        "next_u64" => guarded(|| format!("{:#x}", rng.next_u64())),
        "next_u32" => guarded(|| format!("{:#x}", rng.next_u32())),
        "test_timer" => guarded(|| format!("{:?}", rng.test_timer())),
        "set_rounds_test_timer" => guarded(|| {
            let r = rng.test_timer();
            match r {
                Ok(r) => {
                    rng.set_rounds(r);
                    format!("Ok({}) accepted by set_rounds", r)
                }
                Err(e) => format!("Err({:?})", e),
            }
        }),
        c if c.starts_with("diff:") => {
            // differential run: the real code and the executable twin of the specification on the same scripted timer
            let calls: Vec<String> = c[5..].split('+').map(|s| s.to_string()).collect();
            let (base, deltas) = (base, args[3].split(',').map(|s| s.parse::<u64>().unwrap()).collect::<Vec<u64>>());
            let cnt = count.clone();
            guarded(move || {
                let mut script = crate::jitter_ref::Script::new(base, deltas.clone());
                let mut twin = crate::jitter_ref::RefJitter::new();
                if rounds > 0 { twin.rounds = rounds; }
                let mut out = String::from("agree");
                for (i, c) in calls.iter().enumerate() {
                    let before = cnt.load(Ordering::SeqCst);
                    // the twin first: if the timer is stuck for too long the real call would not return either
                    let (exp, real): (Option<String>, String) = match c.as_str() {
                        "next_u64" => { let e = twin.next_u64(&mut script, 4000); if e.is_none() { out = format!("skipped: stuck timer at call {}", i); break; } (e.map(|v| format!("{:#x}", v)), format!("{:#x}", rng.next_u64())) }
                        "next_u32" => { let e = twin.next_u32(&mut script, 4000); if e.is_none() { out = format!("skipped: stuck timer at call {}", i); break; } (e.map(|v| format!("{:#x}", v)), format!("{:#x}", rng.next_u32())) }
                        "clone_next_u32" => {
                            // a clone never holds a pending half: its first output is a fresh collection on the shared script
                            let mut t2 = crate::jitter_ref::RefJitter { data: twin.data, rounds: twin.rounds, half: false };
                            let e = t2.next_u32(&mut script, 4000); if e.is_none() { out = format!("skipped: stuck timer at call {}", i); break; }
                            (e.map(|v| format!("{:#x}", v)), format!("{:#x}", rng.clone().next_u32()))
                        }
                        "clonefrom_next_u32" => {
                            // b = fresh clone; b.next_u32() leaves b with a pending half; then b.clone_from(&rng): Clone::clone_from is
                            // `*b = rng.clone()` unless overridden, so b's next output is a fresh collection and nothing is pending
                            let mut b = rng.clone();
                            let mut tb = crate::jitter_ref::RefJitter { data: twin.data, rounds: twin.rounds, half: false };
                            let e0 = tb.next_u32(&mut script, 4000); if e0.is_none() { out = format!("skipped: stuck timer at call {}", i); break; }
                            let r0 = b.next_u32();
                            if e0 != Some(r0) { out = format!("MISMATCH at call {} ({}): clone's first output {:#x} expected {:#x}", i, c, r0, e0.unwrap()); break; }
                            b.clone_from(&rng);
                            let mut t2 = crate::jitter_ref::RefJitter { data: twin.data, rounds: twin.rounds, half: false };
                            let e = t2.next_u32(&mut script, 4000); if e.is_none() { out = format!("skipped: stuck timer at call {}", i); break; }
                            (e.map(|v| format!("{:#x}", v)), format!("{:#x}", b.next_u32()))
                        }
                        f if f.starts_with("fill:") => {
                            let n: usize = f[5..].parse().unwrap();
                            let e = twin.fill(n, &mut script, 4000); if e.is_none() { out = format!("skipped: stuck timer at call {}", i); break; }
                            let mut b = vec![0u8; n]; rng.fill_bytes(&mut b);
                            (e.map(|v| format!("{:02x?}", v)), format!("{:02x?}", b))
                        }
                        "test_timer" => {
                            let r = rng.test_timer();
                            let obs: Result<u8, String> = r.map_err(|e| format!("{:?}", e));
                            match crate::jitter_ref::check_test_timer(base, &deltas, &obs) {
                                Ok(()) => (Some(format!("{:?}", obs)), format!("{:?}", obs)),
                                Err(why) => (Some(why), format!("{:?}", obs)),
                            }
                        }
                        _ => (None, "?".to_string()),
                    };
                    let reads = cnt.load(Ordering::SeqCst) - before;
                    if c != "test_timer" && reads != script.k - (before) { out = format!("MISMATCH at call {} ({}): real code read the timer {} times, the documented procedure {} times", i, c, reads, script.k - before); break; }
                    if exp.as_deref() != Some(real.as_str()) { out = format!("MISMATCH at call {} ({}): real {} expected {}", i, c, real, exp.unwrap_or_default()); break; }
                }
                out
            })
        }
        c if c.starts_with("seq:") => {
            // a sequence of calls, e.g. seq:next_u32+fill:4 ; prints each result with the number of timer readings it consumed
            let calls: Vec<String> = c[4..].split('+').map(|s| s.to_string()).collect();
            let cnt = count.clone();
            guarded(move || {
                let mut out = String::new();
                for c in calls {
                    let before = cnt.load(Ordering::SeqCst);
                    let r = match c.as_str() {
                        "next_u32" => format!("{:#010x}", rng.next_u32()),
                        "next_u64" => format!("{:#018x}", rng.next_u64()),
                        "clone_next_u32" => format!("{:#010x}", rng.clone().next_u32()),
                        f if f.starts_with("fill:") => {
                            let n: usize = f[5..].parse().unwrap();
                            let mut b = vec![0u8; n];
                            rng.fill_bytes(&mut b);
                            let mut v: u64 = 0;
                            for (i, x) in b.iter().enumerate().take(8) {
                                v |= (*x as u64) << (8 * i);
                            }
                            format!("{:#x}", v)
                        }
                        _ => "?".to_string(),
                    };
                    out += &format!("[{} -> {} reads+{}] ", c, r, cnt.load(Ordering::SeqCst) - before);
                }
                out
            })
        }
        c if c.starts_with("fill:") => {
            let n: usize = c[5..].parse().unwrap();
            guarded(|| {
                let mut b = vec![0u8; n];
                rng.fill_bytes(&mut b);
                format!("{:02x?}", b)
            })
        }
        _ => {
            eprintln!("unknown call");
            return 2;
        }
    };
    match res {
        Ok(s) => {
            println!("RESULT ok {} reads={}", s, count.load(Ordering::SeqCst));
            0
        }
        Err(p) => {
            println!("RESULT panic {:?} reads={}", p, count.load(Ordering::SeqCst));
            1
        }
    }
}
