use crate::{guarded, scripted};
use rand_core::RngCore;
use rand_jitter::JitterRng;
use std::sync::atomic::Ordering;

/// rngs-replay jitter <call> <rounds> <base> <delta,delta,...>
/// call: next_u64 | next_u32 | test_timer | set_rounds_test_timer | fill:<n>
pub fn main(args: &[String]) -> i32 {
    if args.len() < 4 {
        eprintln!("usage: jitter <call> <rounds> <base> <d1,d2,...>");
        return 2;
    }
    let call = args[0].as_str();
    let rounds: u8 = args[1].parse().unwrap();
    let base: u64 = args[2].parse().unwrap();
    let deltas: Vec<u64> = args[3].split(',').map(|s| s.parse::<u64>().unwrap()).collect();
    let (timer, count) = scripted(base, deltas);
    let mut rng = JitterRng::new_with_timer(timer);
    if rounds > 0 {
        rng.set_rounds(rounds);
    }
    let res: Result<String, String> = match call {
        "next_u64" => guarded(|| format!("{:#x}", rng.next_u64())),
        "next_u32" => guarded(|| format!("{:#x}", rng.next_u32())),
        "test_timer" => guarded(|| format!("{:?}", rng.test_timer())),
        "set_rounds_test_timer" => guarded(|| {
            let r = rng.test_timer();
            match r {
                Ok(r) => {
                    rng.set_rounds(r);
                    format!("Ok({}) accepted by set_rounds", r)
                }
                Err(e) => format!("Err({:?})", e),
            }
        }),
        c if c.starts_with("seq:") => {
            // a sequence of calls, e.g. seq:next_u32+fill:4 ; prints each result with the number of timer readings it consumed
            let calls: Vec<String> = c[4..].split('+').map(|s| s.to_string()).collect();
            let cnt = count.clone();
            guarded(move || {
                let mut out = String::new();
                for c in calls {
                    let before = cnt.load(Ordering::SeqCst);
                    let r = match c.as_str() {
                        "next_u32" => format!("{:#010x}", rng.next_u32()),
                        "next_u64" => format!("{:#018x}", rng.next_u64()),
                        "clone_next_u32" => format!("{:#010x}", rng.clone().next_u32()),
                        f if f.starts_with("fill:") => {
                            let n: usize = f[5..].parse().unwrap();
                            let mut b = vec![0u8; n];
                            rng.fill_bytes(&mut b);
                            let mut v: u64 = 0;
                            for (i, x) in b.iter().enumerate().take(8) {
                                v |= (*x as u64) << (8 * i);
                            }
                            format!("{:#x}", v)
                        }
                        _ => "?".to_string(),
                    };
                    out += &format!("[{} -> {} reads+{}] ", c, r, cnt.load(Ordering::SeqCst) - before);
                }
                out
            })
        }
        c if c.starts_with("fill:") => {
            let n: usize = c[5..].parse().unwrap();
            guarded(|| {
                let mut b = vec![0u8; n];
                rng.fill_bytes(&mut b);
                format!("{:02x?}", b)
            })
        }
        _ => {
            eprintln!("unknown call");
            return 2;
        }
    };
    match res {
        Ok(s) => {
            println!("RESULT ok {} reads={}", s, count.load(Ordering::SeqCst));
            0
        }
        Err(p) => {
            println!("RESULT panic {:?} reads={}", p, count.load(Ordering::SeqCst));
            1
        }
    }
}
