//! C19: every generator / core type is Send + Sync (JitterRng<F> for any timer F that is): obligations discharged by rustc.
fn assert_send_sync<T: Send + Sync>() {}
fn timer_generic<F: Fn() -> u64 + Send + Sync>() {
    assert_send_sync::<rand_jitter::JitterRng<F>>();
}
pub fn obligations() {
    assert_send_sync::<rand_xoshiro::SplitMix64>();
    assert_send_sync::<rand_xoshiro::Xoroshiro64Star>();
    assert_send_sync::<rand_xoshiro::Xoroshiro64StarStar>();
    assert_send_sync::<rand_xoshiro::Xoroshiro128Plus>();
    assert_send_sync::<rand_xoshiro::Xoroshiro128PlusPlus>();
    assert_send_sync::<rand_xoshiro::Xoroshiro128StarStar>();
    assert_send_sync::<rand_xoshiro::Xoshiro128Plus>();
    assert_send_sync::<rand_xoshiro::Xoshiro128PlusPlus>();
    assert_send_sync::<rand_xoshiro::Xoshiro128StarStar>();
    assert_send_sync::<rand_xoshiro::Xoshiro256Plus>();
    assert_send_sync::<rand_xoshiro::Xoshiro256PlusPlus>();
    assert_send_sync::<rand_xoshiro::Xoshiro256StarStar>();
    assert_send_sync::<rand_xoshiro::Xoshiro512Plus>();
    assert_send_sync::<rand_xoshiro::Xoshiro512PlusPlus>();
    assert_send_sync::<rand_xoshiro::Xoshiro512StarStar>();
    assert_send_sync::<rand_xorshift::XorShiftRng>();
    assert_send_sync::<rand_hc::Hc128Rng>();
    assert_send_sync::<rand_hc::Hc128Core>();
    assert_send_sync::<rand_isaac::IsaacRng>();
    assert_send_sync::<rand_isaac::Isaac64Rng>();
    assert_send_sync::<rand_isaac::isaac::IsaacCore>();
    assert_send_sync::<rand_isaac::isaac64::Isaac64Core>();
    timer_generic::<fn() -> u64>();
}
