//! C10 fallback (exploration, bounded): `b.clone_from(&a)` and `a.clone()` for every deterministic generator, with source and
//! destination at various read positions (fresh, mid-block, block boundary, pending half): the result must continue exactly like the
//! source (and compare equal to it where the type has ==), and the source must be untouched.  rngs-replay clone-diff
use rand_core::{RngCore, SeedableRng};

fn advance<G: RngCore>(g: &mut G, words: usize, extra32: bool, native64: bool) {
    for _ in 0..words { if native64 { g.next_u64(); } else { g.next_u32(); } }
    if extra32 { g.next_u32(); }
}

fn run<G: RngCore + SeedableRng + Clone>(name: &str, native64: bool, eq: Option<fn(&G, &G) -> bool>) -> Option<String> {
    let pos = [0usize, 1, 2, 15, 16, 17, 255, 256, 257, 300];
    let mut sa = G::Seed::default();
    for (i, b) in sa.as_mut().iter_mut().enumerate() { *b = (i as u8).wrapping_mul(37).wrapping_add(11); }
    let mut sb = G::Seed::default();
    for (i, b) in sb.as_mut().iter_mut().enumerate() { *b = (i as u8).wrapping_mul(101).wrapping_add(3); }
    for &pa in &pos {
        for &ha in &[false, true] {
            let mut a = G::from_seed(sa.clone());
            advance(&mut a, pa, ha, native64);
            // reference continuation of the source
            let mut r = a.clone();
            let refout: Vec<u64> = (0..40).map(|i| if i % 3 == 0 { r.next_u32() as u64 } else { r.next_u64() }).collect();
            // clone()
            let mut c = a.clone();
            if let Some(e) = eq { if !e(&c, &a) { return Some(format!("{}: clone() of a generator after {} words{} does not compare equal to it", name, pa, if ha { " + next_u32" } else { "" })); } }
            let out: Vec<u64> = (0..40).map(|i| if i % 3 == 0 { c.next_u32() as u64 } else { c.next_u64() }).collect();
            if out != refout { return Some(format!("{}: clone() after {} words{} does not continue like its source", name, pa, if ha { " + next_u32" } else { "" })); }
            for &pb in &pos {
                for &hb in &[false, true] {
                    let mut b = G::from_seed(sb.clone());
                    advance(&mut b, pb, hb, native64);
                    b.clone_from(&a);
                    let what = format!("{}: b.clone_from(&a) with a after {} words{} and b after {} words{}", name, pa, if ha { " + next_u32" } else { "" }, pb, if hb { " + next_u32" } else { "" });
                    if let Some(e) = eq { if !e(&b, &a) { return Some(format!("{}: result does not compare equal to the source", what)); } }
                    let out: Vec<u64> = (0..40).map(|i| if i % 3 == 0 { b.next_u32() as u64 } else { b.next_u64() }).collect();
                    if out != refout { return Some(format!("{}: result does not continue like the source (first outputs {:x?} vs {:x?})", what, &out[..3], &refout[..3])); }
                    // the source is untouched
                    let mut a2 = a.clone();
                    let o2: Vec<u64> = (0..40).map(|i| if i % 3 == 0 { a2.next_u32() as u64 } else { a2.next_u64() }).collect();
                    if o2 != refout { return Some(format!("{}: the source was disturbed", what)); }
                }
            }
        }
    }
    None
}

pub fn main(_args: &[String]) -> i32 {
    let res = crate::guarded(|| {
        use rand_xoshiro::*;
        macro_rules! go {
            ($($ty:ty, $n64:expr, $eq:expr);*) => { $( if let Some(m) = run::<$ty>(stringify!($ty), $n64, $eq) { return format!("MISMATCH {}", m); } )* }
        }
        macro_rules! eqf { ($ty:ty) => { Some((|x: &$ty, y: &$ty| x == y) as fn(&$ty, &$ty) -> bool) } }
        go!(SplitMix64, true, eqf!(SplitMix64); Xoroshiro64Star, false, eqf!(Xoroshiro64Star); Xoroshiro64StarStar, false, eqf!(Xoroshiro64StarStar);
            Xoroshiro128Plus, true, eqf!(Xoroshiro128Plus); Xoroshiro128PlusPlus, true, eqf!(Xoroshiro128PlusPlus); Xoroshiro128StarStar, true, eqf!(Xoroshiro128StarStar);
            Xoshiro128Plus, false, eqf!(Xoshiro128Plus); Xoshiro128PlusPlus, false, eqf!(Xoshiro128PlusPlus); Xoshiro128StarStar, false, eqf!(Xoshiro128StarStar);
            Xoshiro256Plus, true, eqf!(Xoshiro256Plus); Xoshiro256PlusPlus, true, eqf!(Xoshiro256PlusPlus); Xoshiro256StarStar, true, eqf!(Xoshiro256StarStar);
            Xoshiro512Plus, true, eqf!(Xoshiro512Plus); Xoshiro512PlusPlus, true, eqf!(Xoshiro512PlusPlus); Xoshiro512StarStar, true, eqf!(Xoshiro512StarStar);
            rand_xorshift::XorShiftRng, false, eqf!(rand_xorshift::XorShiftRng); rand_hc::Hc128Rng, false, eqf!(rand_hc::Hc128Rng);
            rand_isaac::IsaacRng, false, None; rand_isaac::Isaac64Rng, true, None);
        "agree (19 generators x 20 source positions x 20 destination positions, clone and clone_from)".to_string()
    });
    match res {
        Ok(s) => println!("RESULT ok {}", s),
        Err(e) => println!("RESULT panic {}", e),
    }
    0
}
