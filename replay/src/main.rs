//! Replay driver: re-executes a recorded input against the real crates of /repo (dev profile: overflow checks and
//! debug assertions on) and prints what was observed.  Also hosts the structured searches used to turn a failed
//! obligation into a concrete input (DESIGN §3.6).
use rand_core::RngCore;
use std::panic::{catch_unwind, AssertUnwindSafe};
use std::sync::atomic::{AtomicUsize, Ordering};
use std::sync::Arc;

mod jitter;
mod jitter_ref;
mod jump;
mod isaac_ref;
mod stream_ref;
mod clone_ref;
mod serde_pos;
#[cfg(feature = "send_sync_obligations")]
mod send_sync;

fn main() {
    let args: Vec<String> = std::env::args().collect();
    std::panic::set_hook(Box::new(|_| {}));
    #[cfg(feature = "send_sync_obligations")]
    send_sync::obligations();
    let code = match args.get(1).map(|s| s.as_str()) {
        Some("jitter") => jitter::main(&args[2..]),
        Some("serde-positions") => serde_pos::main(),
        Some("jump") => jump::main(&args[2..]),
        Some("isaac-diff") => isaac_ref::main(&args[2..]),
        Some("stream-diff") => stream_ref::main(&args[2..]),
        Some("clone-diff") => clone_ref::main(&args[2..]),
        _ => {
            eprintln!("usage: rngs-replay jitter <call> <script…>");
            2
        }
    };
    std::process::exit(code);
}

/// A scripted timer: reading k (0-based) is `base + sum of the first k deltas`, where the deltas repeat cyclically.
pub fn scripted(base: u64, deltas: Vec<u64>) -> (impl Fn() -> u64 + Send + Sync + Clone, Arc<AtomicUsize>) {
    let n = Arc::new(AtomicUsize::new(0));
    let cur = Arc::new(std::sync::atomic::AtomicU64::new(base));
    let n2 = n.clone();
    let f = move || {
        let k = n2.fetch_add(1, Ordering::SeqCst);
        let d = deltas[k % deltas.len()];
        cur.fetch_add(d, Ordering::SeqCst).wrapping_add(0)
    };
    (f, n)
}

pub fn guarded<T>(f: impl FnOnce() -> T) -> Result<T, String> {
    catch_unwind(AssertUnwindSafe(f)).map_err(|e| {
        if let Some(s) = e.downcast_ref::<&str>() {
            s.to_string()
        } else if let Some(s) = e.downcast_ref::<String>() {
            s.clone()
        } else {
            "panic".to_string()
        }
    })
}

#[allow(dead_code)]
fn _unused(r: &mut dyn RngCore) -> u32 {
    r.next_u32()
}
