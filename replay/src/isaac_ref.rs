//! C03 fallback (exploration, bounded): the real IsaacRng / Isaac64Rng against a plain transcription of Jenkins' rand.c / isaac64.c
//! (randinit with flag TRUE, two passes; isaac() without unrolling or helper functions; results handed out from the top).
//! rngs-replay isaac-diff <blocks per seed>
use rand_core::{RngCore, SeedableRng};

pub struct Ref32 { mm: [u32; 256], aa: u32, bb: u32, cc: u32 }
impl Ref32 {
    pub fn new(seed: &[u8; 32]) -> Ref32 {
        let mut m = [0u32; 256];
        for k in 0..8 { m[k] = u32::from_le_bytes([seed[4 * k], seed[4 * k + 1], seed[4 * k + 2], seed[4 * k + 3]]); }
        let mut v = [0x9e3779b9u32; 8];
        fn mix(v: &mut [u32; 8]) {
            let [mut a, mut b, mut c, mut d, mut e, mut f, mut g, mut h] = *v;
            a ^= b << 11; d = d.wrapping_add(a); b = b.wrapping_add(c);
            b ^= c >> 2;  e = e.wrapping_add(b); c = c.wrapping_add(d);
            c ^= d << 8;  f = f.wrapping_add(c); d = d.wrapping_add(e);
            d ^= e >> 16; g = g.wrapping_add(d); e = e.wrapping_add(f);
            e ^= f << 10; h = h.wrapping_add(e); f = f.wrapping_add(g);
            f ^= g >> 4;  a = a.wrapping_add(f); g = g.wrapping_add(h);
            g ^= h << 8;  b = b.wrapping_add(g); h = h.wrapping_add(a);
            h ^= a >> 9;  c = c.wrapping_add(h); a = a.wrapping_add(b);
            *v = [a, b, c, d, e, f, g, h];
        }
        for _ in 0..4 { mix(&mut v); }
        for _pass in 0..2 {
            let mut i = 0;
            while i < 256 {
                for k in 0..8 { v[k] = v[k].wrapping_add(m[i + k]); }
                mix(&mut v);
                for k in 0..8 { m[i + k] = v[k]; }
                i += 8;
            }
        }
        Ref32 { mm: m, aa: 0, bb: 0, cc: 0 }
    }
    /// one call of isaac(): the 256 results in the order the generator hands them out (rand.c counts randcnt down from 256)
    pub fn block(&mut self) -> [u32; 256] {
        let mut r = [0u32; 256];
        self.cc = self.cc.wrapping_add(1);
        self.bb = self.bb.wrapping_add(self.cc);
        for i in 0..256 {
            let x = self.mm[i];
            self.aa = match i % 4 { 0 => self.aa ^ (self.aa << 13), 1 => self.aa ^ (self.aa >> 6), 2 => self.aa ^ (self.aa << 2), _ => self.aa ^ (self.aa >> 16) };
            self.aa = self.aa.wrapping_add(self.mm[(i + 128) % 256]);
            let y = self.mm[(x >> 2) as usize % 256].wrapping_add(self.aa).wrapping_add(self.bb);
            self.mm[i] = y;
            self.bb = self.mm[(y >> 10) as usize % 256].wrapping_add(x);
            r[255 - i] = self.bb;
        }
        r
    }
}

pub struct Ref64 { mm: [u64; 256], aa: u64, bb: u64, cc: u64 }
impl Ref64 {
    pub fn new(seed: &[u8; 32]) -> Ref64 {
        let mut m = [0u64; 256];
        for k in 0..4 { let mut b = [0u8; 8]; b.copy_from_slice(&seed[8 * k..8 * k + 8]); m[k] = u64::from_le_bytes(b); }
        let mut v = [0x9e3779b97f4a7c13u64; 8];
        fn mix(v: &mut [u64; 8]) {
            let [mut a, mut b, mut c, mut d, mut e, mut f, mut g, mut h] = *v;
            a = a.wrapping_sub(e); f ^= h >> 9;  h = h.wrapping_add(a);
            b = b.wrapping_sub(f); g ^= a << 9;  a = a.wrapping_add(b);
            c = c.wrapping_sub(g); h ^= b >> 23; b = b.wrapping_add(c);
            d = d.wrapping_sub(h); a ^= c << 15; c = c.wrapping_add(d);
            e = e.wrapping_sub(a); b ^= d >> 14; d = d.wrapping_add(e);
            f = f.wrapping_sub(b); c ^= e << 20; e = e.wrapping_add(f);
            g = g.wrapping_sub(c); d ^= f >> 17; f = f.wrapping_add(g);
            h = h.wrapping_sub(d); e ^= g << 14; g = g.wrapping_add(h);
            *v = [a, b, c, d, e, f, g, h];
        }
        for _ in 0..4 { mix(&mut v); }
        for _pass in 0..2 {
            let mut i = 0;
            while i < 256 {
                for k in 0..8 { v[k] = v[k].wrapping_add(m[i + k]); }
                mix(&mut v);
                for k in 0..8 { m[i + k] = v[k]; }
                i += 8;
            }
        }
        Ref64 { mm: m, aa: 0, bb: 0, cc: 0 }
    }
    pub fn block(&mut self) -> [u64; 256] {
        let mut r = [0u64; 256];
        self.cc = self.cc.wrapping_add(1);
        self.bb = self.bb.wrapping_add(self.cc);
        for i in 0..256 {
            let x = self.mm[i];
            self.aa = match i % 4 { 0 => !(self.aa ^ (self.aa << 21)), 1 => self.aa ^ (self.aa >> 5), 2 => self.aa ^ (self.aa << 12), _ => self.aa ^ (self.aa >> 33) };
            self.aa = self.aa.wrapping_add(self.mm[(i + 128) % 256]);
            let y = self.mm[(x >> 3) as usize % 256].wrapping_add(self.aa).wrapping_add(self.bb);
            self.mm[i] = y;
            self.bb = self.mm[(y >> 11) as usize % 256].wrapping_add(x);
            r[255 - i] = self.bb;
        }
        r
    }
}

fn seeds() -> Vec<[u8; 32]> {
    let mut v = vec![[0u8; 32]];
    let mut s = [0u8; 32];
    for (i, b) in s.iter_mut().enumerate() { *b = i as u8 + 1; }
    v.push(s);
    v.push([0xff; 32]);
    let mut x: u64 = 0x9e3779b97f4a7c15;
    for _ in 0..5 {
        let mut s = [0u8; 32];
        for b in s.iter_mut() { x ^= x << 13; x ^= x >> 7; x ^= x << 17; *b = (x >> 24) as u8; }
        v.push(s);
    }
    for k in [3usize, 7, 11, 31] { let mut s = [0u8; 32]; s[k] = 0x80; v.push(s); }
    v
}

pub fn main(args: &[String]) -> i32 {
    let blocks: usize = args.first().and_then(|s| s.parse().ok()).unwrap_or(2000);
    let which = args.get(1).map(|s| s.as_str()).unwrap_or("both");
    let res = crate::guarded(|| {
        for seed in seeds() {
            if which != "64" {
                let mut g = rand_isaac::IsaacRng::from_seed(seed);
                let mut r = Ref32::new(&seed);
                for blk in 0..blocks {
                    let exp = r.block();
                    for (j, e) in exp.iter().enumerate() {
                        let got = g.next_u32();
                        if got != *e {
                            return format!("MISMATCH IsaacRng::from_seed({:02x?}): output word #{} is {:#010x}, Jenkins' isaac() gives {:#010x}", seed, blk * 256 + j, got, e);
                        }
                    }
                }
            }
            if which != "32" {
                let mut g = rand_isaac::Isaac64Rng::from_seed(seed);
                let mut r = Ref64::new(&seed);
                for blk in 0..blocks {
                    let exp = r.block();
                    for (j, e) in exp.iter().enumerate() {
                        let got = g.next_u64();
                        if got != *e {
                            return format!("MISMATCH Isaac64Rng::from_seed({:02x?}): output word #{} is {:#018x}, Jenkins' isaac64() gives {:#018x}", seed, blk * 256 + j, got, e);
                        }
                    }
                }
            }
        }
        format!("agree ({} seeds x {} blocks, both generators)", seeds().len(), blocks)
    });
    match res {
        Ok(s) => println!("RESULT ok {}", s),
        Err(e) => println!("RESULT panic {}", e),
    }
    0
}
