//! C06 concrete-input search / replay: the real jump()/long_jump() against J_ref(T) applied to the same state, where J_ref is the
//! reference polynomial (tools/jumppoly.py, confirmed by the Verus-verified checker) and T is the real native step.  The state is
//! observed through the serde derive (bincode: the LE state words).
//! rngs-replay jump <Generator> <jump|long_jump> <seed hex> <poly word,poly word,...>
use rand_core::{RngCore, SeedableRng};

fn state<G: serde::Serialize>(g: &G) -> Vec<u8> {
    bincode::serialize(g).unwrap()
}

fn run<G>(seed_bytes: &[u8], poly: &[u64], w: usize, step: fn(&mut G), jump: fn(&mut G)) -> String
where
    G: SeedableRng + Clone + serde::Serialize,
{
    let mut seed = G::Seed::default();
    if seed.as_mut().len() != seed_bytes.len() {
        return format!("bad seed length {} (want {})", seed_bytes.len(), seed.as_mut().len());
    }
    seed.as_mut().copy_from_slice(seed_bytes);
    let g0 = G::from_seed(seed);
    let n = state(&g0).len() * 8;
    let mut acc = vec![0u8; n / 8];
    let mut x = g0.clone();
    for i in 0..n {
        if (poly[i / w] >> (i % w)) & 1 == 1 {
            for (a, b) in acc.iter_mut().zip(state(&x)) {
                *a ^= b;
            }
        }
        step(&mut x);
    }
    let mut j = g0.clone();
    jump(&mut j);
    if state(&j) == acc {
        "agree".to_string()
    } else {
        format!("MISMATCH: state after the call is {:02x?}, J_ref(T) applied to the state before is {:02x?}", state(&j), acc)
    }
}

macro_rules! gens {
    ($name:expr, $which:expr, $seed:expr, $poly:expr; $($id:ident $w:expr, $step:ident);*) => {
        match ($name, $which) {
            $( (stringify!($id), "jump") => run::<rand_xoshiro::$id>($seed, $poly, $w, |g| { g.$step(); }, |g| g.jump()),
               (stringify!($id), "long_jump") => run::<rand_xoshiro::$id>($seed, $poly, $w, |g| { g.$step(); }, |g| g.long_jump()), )*
            _ => "unknown generator".to_string(),
        }
    };
}

pub fn main(args: &[String]) -> i32 {
    if args.len() < 4 {
        eprintln!("usage: jump <Generator> <jump|long_jump> <seed hex> <w0,w1,...>");
        return 2;
    }
    let seed: Vec<u8> = (0..args[2].len() / 2).map(|i| u8::from_str_radix(&args[2][2 * i..2 * i + 2], 16).unwrap()).collect();
    let poly: Vec<u64> = args[3].split(',').map(|s| s.parse::<u64>().unwrap()).collect();
    let res = crate::guarded(|| {
        gens!(args[0].as_str(), args[1].as_str(), &seed, &poly;
            Xoroshiro128Plus 64, next_u64; Xoroshiro128PlusPlus 64, next_u64; Xoroshiro128StarStar 64, next_u64;
            Xoshiro128Plus 32, next_u32; Xoshiro128PlusPlus 32, next_u32; Xoshiro128StarStar 32, next_u32;
            Xoshiro256Plus 64, next_u64; Xoshiro256PlusPlus 64, next_u64; Xoshiro256StarStar 64, next_u64;
            Xoshiro512Plus 64, next_u64; Xoshiro512PlusPlus 64, next_u64; Xoshiro512StarStar 64, next_u64)
    });
    match res {
        Ok(s) => println!("RESULT ok {}", s),
        Err(e) => println!("RESULT panic {}", e),
    }
    0
}
