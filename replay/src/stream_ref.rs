//! C05 fallback (exploration, bounded): every generator driven with interleavings of next_u32 / next_u64 / fill_bytes(n) against an
//! identically seeded twin that is only ever driven with native-width calls; the twin's native word stream is projected the way the
//! property documents.  rngs-replay stream-diff [sequences per generator]
use rand_core::{RngCore, SeedableRng};

#[derive(Clone, Copy, PartialEq)]
enum Kind {
    Small32,            // native u32 (xoshiro128*, xoroshiro64*, XorShiftRng): next_u64 = (second << 32) | first
    Small64Upper,       // native u64, next_u32 = upper half
    Small64Lower,       // native u64, next_u32 = lower half (Xoroshiro128PlusPlus / StarStar)
    Small64Own,         // SplitMix64: next_u32 is its own finalizer of the same counter step (twin's next_u32 is taken as is)
    Block32,            // BlockRng: buffered u32 words (Hc128Rng, IsaacRng)
    Block64,            // BlockRng64: buffered u64 words, low half then high half (Isaac64Rng)
}

struct Twin<G: RngCore> { g: G, kind: Kind, half: Option<u32> }
impl<G: RngCore> Twin<G> {
    fn w32(&mut self) -> u32 { self.g.next_u32() }
    fn w64(&mut self) -> u64 { self.g.next_u64() }
    fn next_u32(&mut self) -> u32 {
        match self.kind {
            Kind::Small32 | Kind::Block32 => self.w32(),
            Kind::Small64Upper => (self.w64() >> 32) as u32,
            Kind::Small64Lower => self.w64() as u32,
            Kind::Small64Own => self.g.next_u32(),
            Kind::Block64 => {
                if let Some(h) = self.half.take() { return h; }
                let w = self.w64();
                self.half = Some((w >> 32) as u32);
                w as u32
            }
        }
    }
    fn next_u64(&mut self) -> u64 {
        match self.kind {
            Kind::Small32 | Kind::Block32 => { let a = self.w32() as u64; let b = self.w32() as u64; (b << 32) | a }
            Kind::Block64 => { self.half = None; self.w64() }
            _ => self.w64(),
        }
    }
    fn fill(&mut self, n: usize) -> Vec<u8> {
        let mut out = Vec::with_capacity(n + 8);
        match self.kind {
            Kind::Block32 => { while out.len() < n { out.extend_from_slice(&self.w32().to_le_bytes()); } }
            Kind::Block64 => { self.half = None; while out.len() < n { out.extend_from_slice(&self.w64().to_le_bytes()); } }
            _ => {
                for _ in 0..n / 8 { let w = self.next_u64(); out.extend_from_slice(&w.to_le_bytes()); }
                let t = n % 8;
                if t > 4 { let w = self.next_u64(); out.extend_from_slice(&w.to_le_bytes()); }
                else if t > 0 { let w = self.next_u32(); out.extend_from_slice(&w.to_le_bytes()); }
            }
        }
        out.truncate(n);
        out
    }
}

struct Lcg(u64);
impl Lcg { fn next(&mut self) -> u64 { self.0 ^= self.0 << 13; self.0 ^= self.0 >> 7; self.0 ^= self.0 << 17; self.0 } }

fn run<G: RngCore + SeedableRng + Clone>(name: &str, kind: Kind, block_words: usize, seqs: usize) -> Option<String> {
    let mut rnd = Lcg(0x2545F4914F6CDD1D ^ name.len() as u64);
    for s in 0..seqs {
        let mut seed = G::Seed::default();
        for b in seed.as_mut().iter_mut() { *b = (rnd.next() >> 24) as u8; }
        if s == 0 { for b in seed.as_mut().iter_mut() { *b = 0; } }
        let mut g = G::from_seed(seed.clone());
        let mut t = Twin { g: G::from_seed(seed.clone()), kind, half: None };
        let mut hist = String::new();
        // start somewhere in the block (block generators): skip to just before a refill in a third of the sequences
        if block_words > 0 && s % 3 == 1 {
            let skip = block_words - 1 - (rnd.next() % 3) as usize;
            for _ in 0..skip { if kind == Kind::Block64 { g.next_u64(); t.next_u64(); } else { g.next_u32(); t.next_u32(); } }
            hist += &format!("skip {} words; ", skip);
        }
        for _ in 0..14 {
            let op = rnd.next() % 8;
            if op < 2 {
                let (a, e) = (g.next_u32(), t.next_u32());
                hist += "next_u32; ";
                if a != e { return Some(format!("{} seed {:02x?}: {}-> {:#010x}, the documented projection of the native stream gives {:#010x}", name, seed.as_mut(), hist, a, e)); }
            } else if op < 4 {
                let (a, e) = (g.next_u64(), t.next_u64());
                hist += "next_u64; ";
                if a != e { return Some(format!("{} seed {:02x?}: {}-> {:#018x}, the documented projection of the native stream gives {:#018x}", name, seed.as_mut(), hist, a, e)); }
            } else {
                let n = if op == 7 && block_words > 0 && rnd.next() % 3 == 0 { 900 + (rnd.next() % 1500) as usize }   // more than a whole block
                        else if op == 7 { (rnd.next() % 70) as usize } else { (rnd.next() % 18) as usize };
                let mut buf = vec![0u8; n];
                g.fill_bytes(&mut buf);
                let e = t.fill(n);
                hist += &format!("fill_bytes({}); ", n);
                if buf != e { return Some(format!("{} seed {:02x?}: {}-> {:02x?}, the documented projection of the native stream gives {:02x?}", name, seed.as_mut(), hist, buf, e)); }
            }
        }
        // resynchronisation: after the history both continue with the same native words
        if kind == Kind::Block64 { t.half = None; }
        for _ in 0..3 {
            let (a, e) = (g.next_u64(), t.next_u64());
            if a != e { return Some(format!("{} seed {:02x?}: after [{}] the generator is not where the equivalent native calls leave it (next_u64 {:#x} vs {:#x})", name, seed.as_mut(), hist, a, e)); }
        }
    }
    None
}

pub fn main(args: &[String]) -> i32 {
    let seqs: usize = args.first().and_then(|s| s.parse().ok()).unwrap_or(400);
    let res = crate::guarded(|| {
        use rand_xoshiro::*;
        macro_rules! go { ($($ty:ty, $k:expr, $b:expr);*) => { $( if let Some(m) = run::<$ty>(stringify!($ty), $k, $b, seqs) { return format!("MISMATCH {}", m); } )* } }
        go!(SplitMix64, Kind::Small64Own, 0; Xoroshiro64Star, Kind::Small32, 0; Xoroshiro64StarStar, Kind::Small32, 0;
            Xoroshiro128Plus, Kind::Small64Upper, 0; Xoroshiro128PlusPlus, Kind::Small64Lower, 0; Xoroshiro128StarStar, Kind::Small64Lower, 0;
            Xoshiro128Plus, Kind::Small32, 0; Xoshiro128PlusPlus, Kind::Small32, 0; Xoshiro128StarStar, Kind::Small32, 0;
            Xoshiro256Plus, Kind::Small64Upper, 0; Xoshiro256PlusPlus, Kind::Small64Upper, 0; Xoshiro256StarStar, Kind::Small64Upper, 0;
            Xoshiro512Plus, Kind::Small64Upper, 0; Xoshiro512PlusPlus, Kind::Small64Upper, 0; Xoshiro512StarStar, Kind::Small64Upper, 0;
            rand_xorshift::XorShiftRng, Kind::Small32, 0; rand_hc::Hc128Rng, Kind::Block32, 16;
            rand_isaac::IsaacRng, Kind::Block32, 256; rand_isaac::Isaac64Rng, Kind::Block64, 256);
        format!("agree (19 generators x {} histories of 14 calls)", seqs)
    });
    match res {
        Ok(s) => println!("RESULT ok {}", s),
        Err(e) => println!("RESULT panic {}", e),
    }
    0
}
