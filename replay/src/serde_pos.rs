//! C11 for IsaacRng / Isaac64Rng (bounded stand-in, executed natively on the real crates with the `serde` feature):
//! a snapshot (bincode) taken at EVERY read position - every buffer index, with 0, 1 or 2 preceding next_u32 calls so that
//! ISAAC-64's half-word flag is covered at every index including the last word of a block - restores a generator with the
//! same values under mixed next_u32 / next_u64 / fill_bytes continuations, and serializing leaves the original untouched.
use rand_core::{RngCore, SeedableRng};
use serde::{de::DeserializeOwned, Serialize};

fn futures<R: RngCore>(r: &mut R, pattern: usize) -> Vec<u64> {
    let mut out = Vec::new();
    for i in 0..300 {
        match (i + pattern) % 5 {
            0 | 1 => out.push(r.next_u32() as u64),
            2 => out.push(r.next_u64()),
            3 => out.push(r.next_u32() as u64),
            _ => {
                let mut b = [0u8; 11];
                r.fill_bytes(&mut b);
                out.push(b.iter().fold(0u64, |a, &x| a.wrapping_mul(257).wrapping_add(x as u64)));
            }
        }
    }
    out
}

fn positions<R: RngCore + SeedableRng<Seed = [u8; 32]> + Clone + Serialize + DeserializeOwned>(name: &str) -> Result<usize, String> {
    let mut n = 0;
    for seed_byte in [0u8, 1, 0xa5] {
        let mut seed = [seed_byte; 32];
        seed[3] = 0x80 ^ seed_byte;
        for blocks in [0usize, 1] {
            for words in 0..=260usize {
                for extra32 in 0..3usize {
                    let mut g = R::from_seed(seed);
                    for _ in 0..blocks * 256 + words { let _ = g.next_u64(); }
                    for _ in 0..extra32 { let _ = g.next_u32(); }
                    let before = bincode::serialize(&g).map_err(|e| e.to_string())?;
                    let bytes = bincode::serialize(&g).map_err(|e| e.to_string())?;
                    if bytes != before { return Err(format!("{}: serializing twice gives different bytes (original disturbed)", name)); }
                    let mut h: R = bincode::deserialize(&bytes).map_err(|e| e.to_string())?;
                    for pattern in 0..5 {
                        let mut g2 = g.clone();
                        let mut h2 = h.clone();
                        if futures(&mut g2, pattern) != futures(&mut h2, pattern) {
                            return Err(format!("{}: snapshot after {} next_u64 + {} next_u32 calls (seed byte {:#x}) restores a generator with a different future (continuation pattern {})",
                                name, blocks * 256 + words, extra32, seed_byte, pattern));
                        }
                    }
                    let _ = h.next_u32();
                    n += 1;
                }
            }
        }
    }
    Ok(n)
}

pub fn main() -> i32 {
    let mut total = 0;
    for (name, r) in [("IsaacRng", positions::<rand_isaac::IsaacRng>("IsaacRng")), ("Isaac64Rng", positions::<rand_isaac::Isaac64Rng>("Isaac64Rng"))] {
        match r {
            Ok(n) => { total += n; }
            Err(e) => { println!("RESULT mismatch {}: {}", name, e); return 1; }
        }
    }
    println!("RESULT ok {} snapshot points agree", total);
    0
}
