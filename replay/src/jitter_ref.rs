//! Executable twin of the jitter specification (contracts/jitter/spec.rs and the C13 conditions), used only to turn a failed /
//! undecided obligation into a concrete scripted timer on which the REAL rand_jitter code disagrees with the documented
//! Jitterentropy procedure (DESIGN section 3.6).  Written from the crate documentation, independent of the crate's code.

pub fn lfsr64(mut data: u64, time: u64) -> u64 {
    for i in 0..64 {
        let bit = (time >> i) & 1;
        data ^= bit;
        data ^= (data >> 63) & 1;
        data ^= (data >> 60) & 1;
        data ^= (data >> 55) & 1;
        data ^= (data >> 30) & 1;
        data ^= (data >> 27) & 1;
        data ^= (data >> 22) & 1;
        data = data.rotate_left(1);
    }
    data
}
pub fn stir(d: u64) -> u64 {
    let mut mixer: u64 = 0x98badcfe10325476;
    for i in 0..64 {
        if (d >> i) & 1 == 1 { mixer ^= 0x67452301efcdab89; }
        mixer = mixer.rotate_left(1);
    }
    d ^ mixer
}
pub struct Ec { pub prev: u64, pub ld: i32, pub ld2: i32 }
fn stuck(ec: &mut Ec, d: i32) -> bool {
    let d2 = ec.ld.wrapping_sub(d);
    let d3 = d2.wrapping_sub(ec.ld2);
    ec.ld = d;
    ec.ld2 = d2;
    d == 0 || d2 == 0 || d3 == 0
}
/// A scripted timer as the reference sees it: reading k = base + sum of the first k deltas (cyclic).
pub struct Script { pub base: u64, pub deltas: Vec<u64>, pub k: usize, pub cur: u64 }
impl Script {
    pub fn new(base: u64, deltas: Vec<u64>) -> Script { Script { base, deltas, k: 0, cur: base } }
    pub fn read(&mut self) -> u64 {
        let v = self.cur;
        self.cur = self.cur.wrapping_add(self.deltas[self.k % self.deltas.len()]);
        self.k += 1;
        v
    }
}
pub struct RefJitter { pub data: u64, pub rounds: u8, pub half: bool }
impl RefJitter {
    pub fn new() -> RefJitter { RefJitter { data: 0, rounds: 64, half: false } }
    fn measure(&mut self, ec: &mut Ec, s: &mut Script) -> bool {
        let _ = s.read();                        // memory-access noise source: loop counter reading
        let t = s.read();
        let d = t.wrapping_sub(ec.prev) as i64 as i32;
        ec.prev = t;
        let _ = s.read();                        // LFSR noise source: loop counter reading
        self.data = lfsr64(self.data, d as u64);
        if stuck(ec, d) { return false; }
        self.data = self.data.rotate_left(7);
        true
    }
    /// one 64-bit collection; gives up (None) after `limit` measurements (a stuck timer never returns)
    pub fn collect(&mut self, s: &mut Script, limit: usize) -> Option<u64> {
        let mut ec = Ec { prev: s.read(), ld: 0, ld2: 0 };
        let _ = self.measure(&mut ec, s);
        let mut n = 0;
        for _ in 0..self.rounds {
            loop {
                n += 1;
                if n > limit { return None; }
                if self.measure(&mut ec, s) { break; }
            }
        }
        self.data = stir(self.data);
        Some(self.data)
    }
    pub fn next_u64(&mut self, s: &mut Script, limit: usize) -> Option<u64> { self.half = false; self.collect(s, limit) }
    pub fn next_u32(&mut self, s: &mut Script, limit: usize) -> Option<u32> {
        if self.half { self.half = false; Some((self.data >> 32) as u32) }
        else { let v = self.collect(s, limit)?; self.half = true; Some(v as u32) }
    }
    /// C05/C16 as documented for fill_bytes (incl. the known behaviour F4 for tails of 1..=4 bytes)
    pub fn fill(&mut self, n: usize, s: &mut Script, limit: usize) -> Option<Vec<u8>> {
        let mut out = Vec::new();
        let mut left = n;
        while left >= 8 { out.extend_from_slice(&self.next_u64(s, limit)?.to_le_bytes()); left -= 8; }
        if left > 4 { out.extend_from_slice(&self.next_u64(s, limit)?.to_le_bytes()[..left]); }
        else if left > 0 { out.extend_from_slice(&self.next_u32(s, limit)?.to_le_bytes()[..left]); }
        Some(out)
    }
}

/// C13: is the observed result of test_timer acceptable for the probe log this script produces?
/// Returns Err(reason) when the result violates the property.
pub fn check_test_timer(base: u64, deltas: &[u64], observed: &Result<u8, String>) -> Result<(), String> {
    let mut s = Script::new(base, deltas.to_vec());
    let _ = s.read();
    let mut probes: Vec<(u64, u64)> = Vec::new();
    let (mut ld, mut ld2, mut old) = (0i32, 0i32, 0i32);
    let (mut sum, mut back, mut cmod, mut cstuck) = (0u128, 0u32, 0u32, 0u32);
    let mut early: Option<&'static str> = None;
    for i in 0..400 {
        let t = s.read(); let _ = s.read(); let _ = s.read(); let t2 = s.read();
        probes.push((t, t2));
        if t == 0 || t2 == 0 { early = Some("NoTimer"); break; }
        let d = t2.wrapping_sub(t) as i64 as i32;
        if d == 0 { early = Some("CoarseTimer"); break; }
        if i < 100 { continue; }
        let mut ec = Ec { prev: 0, ld, ld2 };
        if stuck(&mut ec, d) { cstuck += 1; }
        ld = ec.ld; ld2 = ec.ld2;
        if t2 <= t { back += 1; }
        if d % 100 == 0 { cmod += 1; }
        sum += (d as i64 - old as i64).unsigned_abs() as u128;
        old = d;
    }
    let mean = sum / 300;
    let bitlen = 128 - mean.leading_zeros();
    match observed {
        Ok(r) => {
            if let Some(e) = early { return Err(format!("Ok({}) although probe {} shows {}", r, probes.len() - 1, e)); }
            if back > 3 { return Err(format!("Ok({}) although {} probes went backwards", r, back)); }
            if mean < 2 { return Err(format!("Ok({}) although the mean variation is {}", r, mean)); }
            if cmod > 270 { return Err(format!("Ok({}) although {} deltas are multiples of 100", r, cmod)); }
            if cstuck > 270 { return Err(format!("Ok({}) although {} probes are stuck", r, cstuck)); }
            if *r < 1 || *r > 128 { return Err(format!("Ok({}) out of 1..=128", r)); }
            if (*r as u32) * bitlen < 128 { return Err(format!("Ok({}) * bitlen({}) = {} < 128", r, mean, (*r as u32) * bitlen)); }
            Ok(())
        }
        Err(e) => {
            let full = early.is_none();
            let holds = match e.as_str() {
                "NoTimer" => early == Some("NoTimer") || probes.iter().any(|p| p.0 == 0 || p.1 == 0),
                "CoarseTimer" => probes.iter().any(|p| p.0 != 0 && p.1 != 0 && (p.1.wrapping_sub(p.0) as i64 as i32) == 0) || (full && cmod > 270),
                "NotMonotonic" => full && back > 3,
                "TinyVariations" => full && mean < 2,
                "TooManyStuck" => full && cstuck > 270,
                _ => false,
            };
            if holds { Ok(()) } else { Err(format!("Err({}) but that condition does not hold (back={} mean={} mod={} stuck={})", e, back, mean, cmod, cstuck)) }
        }
    }
}
