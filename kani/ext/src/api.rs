//! Structure-independent harnesses on the public API of the real crates (fallback when the Verus side cannot follow a
//! refactoring, and independent second proof in the thorough tier).  The generator state is observed through the
//! crates' own serde derive output: bincode writes the state words little-endian without framing, so for the linear
//! generators "state words == LE words of the seed" reads `bincode::serialize(&g) == seed`.
//! Reference step/output functions: plain-Rust transliterations of the Blackman-Vigna C sources (T6).
use rand_core::{RngCore, SeedableRng};

fn rotl32(x: u32, k: u32) -> u32 { (x << k) | (x >> (32 - k)) }
fn rotl64(x: u64, k: u32) -> u64 { (x << k) | (x >> (64 - k)) }
fn w32(b: &[u8], k: usize) -> u32 { u32::from_le_bytes([b[4 * k], b[4 * k + 1], b[4 * k + 2], b[4 * k + 3]]) }
fn w64(b: &[u8], k: usize) -> u64 {
    u64::from_le_bytes([b[8 * k], b[8 * k + 1], b[8 * k + 2], b[8 * k + 3], b[8 * k + 4], b[8 * k + 5], b[8 * k + 6], b[8 * k + 7]])
}

// ---- engines ----
fn xoro64(s: [u32; 2]) -> [u32; 2] { let s1 = s[1] ^ s[0]; [rotl32(s[0], 26) ^ s1 ^ (s1 << 9), rotl32(s1, 13)] }
fn xoro128a(s: [u64; 2]) -> [u64; 2] { let s1 = s[1] ^ s[0]; [rotl64(s[0], 24) ^ s1 ^ (s1 << 16), rotl64(s1, 37)] }
fn xoro128b(s: [u64; 2]) -> [u64; 2] { let s1 = s[1] ^ s[0]; [rotl64(s[0], 49) ^ s1 ^ (s1 << 21), rotl64(s1, 28)] }
fn xosh128(s: [u32; 4]) -> [u32; 4] {
    let t = s[1] << 9; let s2 = s[2] ^ s[0]; let s3 = s[3] ^ s[1]; let s1 = s[1] ^ s2; let s0 = s[0] ^ s3;
    [s0, s1, s2 ^ t, rotl32(s3, 11)]
}
fn xosh256(s: [u64; 4]) -> [u64; 4] {
    let t = s[1] << 17; let s2 = s[2] ^ s[0]; let s3 = s[3] ^ s[1]; let s1 = s[1] ^ s2; let s0 = s[0] ^ s3;
    [s0, s1, s2 ^ t, rotl64(s3, 45)]
}
fn xosh512(s: [u64; 8]) -> [u64; 8] {
    let t = s[1] << 11;
    let s2 = s[2] ^ s[0]; let s5 = s[5] ^ s[1]; let s1 = s[1] ^ s2; let s7 = s[7] ^ s[3];
    let s3 = s[3] ^ s[4]; let s4 = s[4] ^ s5; let s0 = s[0] ^ s[6]; let s6 = s[6] ^ s7;
    [s0, s1, s2, s3, s4, s5, s6 ^ t, rotl64(s7, 21)]
}

macro_rules! api32 {
    ($seedh:ident, $steph:ident, $ty:ty, $nw:expr, $eng:ident, $out:expr) => {
        #[kani::proof]
        #[kani::unwind(70)]
        fn $seedh() {
            let seed: [u8; 4 * $nw] = kani::any();
            let g = <$ty>::from_seed(seed);
            let bytes = bincode::serialize(&g).unwrap();
            assert!(bytes.len() == 4 * $nw);
            let k: usize = kani::any();
            kani::assume(k < 4 * $nw);
            if seed != [0u8; 4 * $nw] {
                assert!(bytes[k] == seed[k]);                       // every non-zero seed is used verbatim (LE words)
            } else {
                let z = bincode::serialize(&<$ty>::seed_from_u64(0)).unwrap();
                assert!(bytes[k] == z[k]);                          // the zero seed is remapped to seed_from_u64(0)
            }
            assert!(bytes != vec![0u8; 4 * $nw]);                   // never the all-zero state
        }
        #[kani::proof]
        #[kani::unwind(70)]
        fn $steph() {
            let seed: [u8; 4 * $nw] = kani::any();
            kani::assume(seed != [0u8; 4 * $nw]);
            let mut s = [0u32; $nw];
            let mut i = 0;
            while i < $nw { s[i] = w32(&seed, i); i += 1; }
            let mut g = <$ty>::from_seed(seed);
            let mut g2 = g.clone();
            let r = g.next_u32();
            let f: fn([u32; $nw]) -> u32 = $out;
            assert!(r == f(s));
            let n = $eng(s);
            let bytes = bincode::serialize(&g).unwrap();
            let k: usize = kani::any();
            kani::assume(k < $nw);
            assert!(w32(&bytes, k) == n[k]);
            // next_u64 == (second << 32) | first, two steps
            let x = g2.next_u64();
            assert!(x == ((f(n) as u64) << 32) | f(s) as u64);
            let b2 = bincode::serialize(&g2).unwrap();
            assert!(w32(&b2, k) == $eng(n)[k]);
        }
    };
}
macro_rules! api64 {
    ($seedh:ident, $steph:ident, $ty:ty, $nw:expr, $eng:ident, $out:expr, $upper:expr, $mk:expr) => {
        #[kani::proof]
        #[kani::unwind(70)]
        fn $seedh() {
            let seed: [u8; 8 * $nw] = kani::any();
            let g = <$ty>::from_seed($mk(seed));
            let bytes = bincode::serialize(&g).unwrap();
            assert!(bytes.len() == 8 * $nw);
            let k: usize = kani::any();
            kani::assume(k < 8 * $nw);
            if seed != [0u8; 8 * $nw] {
                assert!(bytes[k] == seed[k]);
            } else {
                let z = bincode::serialize(&<$ty>::seed_from_u64(0)).unwrap();
                assert!(bytes[k] == z[k]);
            }
            assert!(bytes != vec![0u8; 8 * $nw]);
        }
        #[kani::proof]
        #[kani::unwind(70)]
        fn $steph() {
            let seed: [u8; 8 * $nw] = kani::any();
            kani::assume(seed != [0u8; 8 * $nw]);
            let mut s = [0u64; $nw];
            let mut i = 0;
            while i < $nw { s[i] = w64(&seed, i); i += 1; }
            let mut g = <$ty>::from_seed($mk(seed));
            let mut g2 = g.clone();
            let r = g.next_u64();
            let f: fn([u64; $nw]) -> u64 = $out;
            assert!(r == f(s));
            let n = $eng(s);
            let bytes = bincode::serialize(&g).unwrap();
            let k: usize = kani::any();
            kani::assume(k < $nw);
            assert!(w64(&bytes, k) == n[k]);
            // next_u32: the documented half of one word, one step
            let y = g2.next_u32();
            if $upper { assert!(y == (f(s) >> 32) as u32); } else { assert!(y == f(s) as u32); }
            let b2 = bincode::serialize(&g2).unwrap();
            assert!(w64(&b2, k) == n[k]);
        }
    };
}
api32!(api_seed_xoroshiro64star, api_step_xoroshiro64star, rand_xoshiro::Xoroshiro64Star, 2, xoro64, |s| s[0].wrapping_mul(0x9E3779BB));
api32!(api_seed_xoroshiro64starstar, api_step_xoroshiro64starstar, rand_xoshiro::Xoroshiro64StarStar, 2, xoro64, |s| rotl32(s[0].wrapping_mul(0x9E3779BB), 5).wrapping_mul(5));
api32!(api_seed_xoshiro128plus, api_step_xoshiro128plus, rand_xoshiro::Xoshiro128Plus, 4, xosh128, |s| s[0].wrapping_add(s[3]));
api32!(api_seed_xoshiro128plusplus, api_step_xoshiro128plusplus, rand_xoshiro::Xoshiro128PlusPlus, 4, xosh128, |s| rotl32(s[0].wrapping_add(s[3]), 7).wrapping_add(s[0]));
api32!(api_seed_xoshiro128starstar, api_step_xoshiro128starstar, rand_xoshiro::Xoshiro128StarStar, 4, xosh128, |s| rotl32(s[1].wrapping_mul(5), 7).wrapping_mul(9));
api64!(api_seed_xoroshiro128plus, api_step_xoroshiro128plus, rand_xoshiro::Xoroshiro128Plus, 2, xoro128a, |s| s[0].wrapping_add(s[1]), true, crate::id);
api64!(api_seed_xoroshiro128plusplus, api_step_xoroshiro128plusplus, rand_xoshiro::Xoroshiro128PlusPlus, 2, xoro128b, |s| rotl64(s[0].wrapping_add(s[1]), 17).wrapping_add(s[0]), false, crate::id);
api64!(api_seed_xoroshiro128starstar, api_step_xoroshiro128starstar, rand_xoshiro::Xoroshiro128StarStar, 2, xoro128a, |s| rotl64(s[0].wrapping_mul(5), 7).wrapping_mul(9), false, crate::id);
api64!(api_seed_xoshiro256plus, api_step_xoshiro256plus, rand_xoshiro::Xoshiro256Plus, 4, xosh256, |s| s[0].wrapping_add(s[3]), true, crate::id);
api64!(api_seed_xoshiro256plusplus, api_step_xoshiro256plusplus, rand_xoshiro::Xoshiro256PlusPlus, 4, xosh256, |s| rotl64(s[0].wrapping_add(s[3]), 23).wrapping_add(s[0]), true, crate::id);
api64!(api_seed_xoshiro256starstar, api_step_xoshiro256starstar, rand_xoshiro::Xoshiro256StarStar, 4, xosh256, |s| rotl64(s[1].wrapping_mul(5), 7).wrapping_mul(9), true, crate::id);
api64!(api_seed_xoshiro512plus, api_step_xoshiro512plus, rand_xoshiro::Xoshiro512Plus, 8, xosh512, |s| s[0].wrapping_add(s[2]), true, rand_xoshiro::Seed512);
api64!(api_seed_xoshiro512plusplus, api_step_xoshiro512plusplus, rand_xoshiro::Xoshiro512PlusPlus, 8, xosh512, |s| rotl64(s[0].wrapping_add(s[2]), 17).wrapping_add(s[2]), true, rand_xoshiro::Seed512);
api64!(api_seed_xoshiro512starstar, api_step_xoshiro512starstar, rand_xoshiro::Xoshiro512StarStar, 8, xosh512, |s| rotl64(s[1].wrapping_mul(5), 7).wrapping_mul(9), true, rand_xoshiro::Seed512);

// ---- XorShiftRng (C04, C08) ----
#[kani::proof]
#[kani::unwind(70)]
fn api_seed_xorshift() {
    let seed: [u8; 16] = kani::any();
    let g = rand_xorshift::XorShiftRng::from_seed(seed);
    let bytes = bincode::serialize(&g).unwrap();
    assert!(bytes.len() == 16);
    let k: usize = kani::any();
    kani::assume(k < 4);
    if seed != [0u8; 16] { assert!(w32(&bytes, k) == w32(&seed, k)); } else { assert!(w32(&bytes, k) == 0x0BAD5EED); }
}
#[kani::proof]
#[kani::unwind(70)]
fn api_step_xorshift() {
    let seed: [u8; 16] = kani::any();
    kani::assume(seed != [0u8; 16]);
    let (x, y, z, w) = (w32(&seed, 0), w32(&seed, 1), w32(&seed, 2), w32(&seed, 3));
    let mut g = rand_xorshift::XorShiftRng::from_seed(seed);
    let r = g.next_u32();
    let t = x ^ (x << 11);
    let nw = (w ^ (w >> 19)) ^ (t ^ (t >> 8));
    assert!(r == nw);
    let bytes = bincode::serialize(&g).unwrap();
    assert!(w32(&bytes, 0) == y && w32(&bytes, 1) == z && w32(&bytes, 2) == w && w32(&bytes, 3) == nw);
}

// ---- fill_bytes on the public API (C05): n/8 next_u64 results, then one next_u64 (tail 5..7) or one next_u32 (tail 1..4),
// little-endian, truncated; the generator is left exactly where the equivalent next_* calls leave it.
// BOUNDED in the length: n <= 20 (every tail length after 0, 1 and 2 full words). ----
// The output scramblers that multiply (SplitMix64, the * and ** generators) make CBMC compare two bit-blasted copies of the same
// multiplier chains; multiplication is therefore abstracted to an uninterpreted function (memo table): the fill_bytes
// projection is proved for EVERY interpretation of wrapping_mul, in particular the real one.
use core::sync::atomic::{AtomicU64, AtomicUsize, Ordering::Relaxed};
static MA: [AtomicU64; 48] = [const { AtomicU64::new(0) }; 48];
static MB: [AtomicU64; 48] = [const { AtomicU64::new(0) }; 48];
static MR: [AtomicU64; 48] = [const { AtomicU64::new(0) }; 48];
static MN: AtomicUsize = AtomicUsize::new(0);
fn mul_uf(a: u64, b: u64, wide: bool) -> u64 {
    let n = MN.load(Relaxed);
    let mut i = 0;
    while i < n {
        if MA[i].load(Relaxed) == a && MB[i].load(Relaxed) == b { return MR[i].load(Relaxed); }
        i += 1;
    }
    let r: u64 = if wide { kani::any() } else { kani::any::<u32>() as u64 };
    assert!(n < 48);
    MA[n].store(a, Relaxed); MB[n].store(b, Relaxed); MR[n].store(r, Relaxed); MN.store(n + 1, Relaxed);
    r
}
pub fn mul_uf64(a: u64, b: u64) -> u64 { mul_uf(a, b, true) }
pub fn mul_uf32(a: u32, b: u32) -> u32 { mul_uf(a as u64, b as u64, false) as u32 }

macro_rules! fill_body {
    ($ty:ty, $n:expr, $mk:expr) => {{
            let seed: [u8; $n] = kani::any();
            let mut g = <$ty>::from_seed($mk(seed));
            let mut r = g.clone();
            let mut buf = [0u8; 20];
            let n: usize = kani::any();
            kani::assume(n <= 20);
            g.fill_bytes(&mut buf[..n]);
            let mut exp = [0u8; 24];
            let mut i = 0;
            while n - i >= 8 {
                let w = r.next_u64().to_le_bytes();
                let mut j = 0;
                while j < 8 { exp[i + j] = w[j]; j += 1; }
                i += 8;
            }
            let t = n - i;
            if t > 4 {
                let w = r.next_u64().to_le_bytes();
                let mut j = 0;
                while j < t { exp[i + j] = w[j]; j += 1; }
            } else if t > 0 {
                let w = r.next_u32().to_le_bytes();
                let mut j = 0;
                while j < t { exp[i + j] = w[j]; j += 1; }
            }
            let k: usize = kani::any();
            kani::assume(k < n);
            assert!(buf[k] == exp[k]);
            assert!(g == r);              // no word skipped, repeated or left half-consumed
    }};
}
// Two harnesses per generator: `api_fill_*` with multiplication abstracted (the proof, thorough tier) and `api_fillcex_*` on the
// real multiplication, used only by the fallback layer, where the question is "is there a failing input" and a SAT answer comes
// much faster without the memo table (a seeded change that CBMC refutes in 2 minutes did not finish in 30 with it).
macro_rules! api_fill {
    ($name:ident, $cex:ident, $ty:ty, $n:expr, $mk:expr) => {
        #[kani::proof]
        #[kani::unwind(70)]
        #[kani::stub(u64::wrapping_mul, mul_uf64)]
        #[kani::stub(u32::wrapping_mul, mul_uf32)]
        fn $name() { fill_body!($ty, $n, $mk) }
        #[kani::proof]
        #[kani::unwind(70)]
        fn $cex() { fill_body!($ty, $n, $mk) }
    };
}
api_fill!(api_fill_splitmix64, api_fillcex_splitmix64, rand_xoshiro::SplitMix64, 8, crate::id);
api_fill!(api_fill_xoroshiro64star, api_fillcex_xoroshiro64star, rand_xoshiro::Xoroshiro64Star, 8, crate::id);
api_fill!(api_fill_xoroshiro64starstar, api_fillcex_xoroshiro64starstar, rand_xoshiro::Xoroshiro64StarStar, 8, crate::id);
api_fill!(api_fill_xoroshiro128plus, api_fillcex_xoroshiro128plus, rand_xoshiro::Xoroshiro128Plus, 16, crate::id);
api_fill!(api_fill_xoroshiro128plusplus, api_fillcex_xoroshiro128plusplus, rand_xoshiro::Xoroshiro128PlusPlus, 16, crate::id);
api_fill!(api_fill_xoroshiro128starstar, api_fillcex_xoroshiro128starstar, rand_xoshiro::Xoroshiro128StarStar, 16, crate::id);
api_fill!(api_fill_xoshiro128plus, api_fillcex_xoshiro128plus, rand_xoshiro::Xoshiro128Plus, 16, crate::id);
api_fill!(api_fill_xoshiro128plusplus, api_fillcex_xoshiro128plusplus, rand_xoshiro::Xoshiro128PlusPlus, 16, crate::id);
api_fill!(api_fill_xoshiro128starstar, api_fillcex_xoshiro128starstar, rand_xoshiro::Xoshiro128StarStar, 16, crate::id);
api_fill!(api_fill_xoshiro256plus, api_fillcex_xoshiro256plus, rand_xoshiro::Xoshiro256Plus, 32, crate::id);
api_fill!(api_fill_xoshiro256plusplus, api_fillcex_xoshiro256plusplus, rand_xoshiro::Xoshiro256PlusPlus, 32, crate::id);
api_fill!(api_fill_xoshiro256starstar, api_fillcex_xoshiro256starstar, rand_xoshiro::Xoshiro256StarStar, 32, crate::id);
api_fill!(api_fill_xoshiro512plus, api_fillcex_xoshiro512plus, rand_xoshiro::Xoshiro512Plus, 64, rand_xoshiro::Seed512);
api_fill!(api_fill_xoshiro512plusplus, api_fillcex_xoshiro512plusplus, rand_xoshiro::Xoshiro512PlusPlus, 64, rand_xoshiro::Seed512);
api_fill!(api_fill_xoshiro512starstar, api_fillcex_xoshiro512starstar, rand_xoshiro::Xoshiro512StarStar, 64, rand_xoshiro::Seed512);
api_fill!(api_fill_xorshift, api_fillcex_xorshift, rand_xorshift::XorShiftRng, 16, crate::id);
