//! T3/T4: the assumed specifications of std functions used by the Verus side (contracts/shims/std.rs, wrapping.rs),
//! checked against the real std on all inputs.  Loop-free (or constant-bounded) => complete.
use core::num::Wrapping;

fn spec_rotl64(x: u64, n: u32) -> u64 { if n % 64 == 0 { x } else { (x << (n % 64)) | (x >> (64 - n % 64)) } }
fn spec_rotr64(x: u64, n: u32) -> u64 { if n % 64 == 0 { x } else { (x >> (n % 64)) | (x << (64 - n % 64)) } }
fn spec_rotl32(x: u32, n: u32) -> u32 { if n % 32 == 0 { x } else { (x << (n % 32)) | (x >> (32 - n % 32)) } }
fn spec_rotr32(x: u32, n: u32) -> u32 { if n % 32 == 0 { x } else { (x >> (n % 32)) | (x << (32 - n % 32)) } }

#[kani::proof]
fn shim_rotate() {
    let x: u64 = kani::any();
    let y: u32 = kani::any();
    let n: u32 = kani::any();
    assert!(x.rotate_left(n) == spec_rotl64(x, n));
    assert!(x.rotate_right(n) == spec_rotr64(x, n));
    assert!(y.rotate_left(n) == spec_rotl32(y, n));
    assert!(y.rotate_right(n) == spec_rotr32(y, n));
}

// contracts/shims/wrapping.rs: operator semantics of the local Wrapping stand-in == core::num::Wrapping
#[kani::proof]
fn shim_wrapping_u32() {
    let a: u32 = kani::any();
    let b: u32 = kani::any();
    let s: usize = kani::any();
    assert!((Wrapping(a) + Wrapping(b)).0 == a.wrapping_add(b));
    assert!((Wrapping(a) - Wrapping(b)).0 == a.wrapping_sub(b));
    assert!((Wrapping(a) ^ Wrapping(b)).0 == a ^ b);
    assert!((!Wrapping(a)).0 == !a);
    assert!((Wrapping(a) << s).0 == a << ((s % 32) as u32));
    assert!((Wrapping(a) >> s).0 == a >> ((s % 32) as u32));
    let mut c = Wrapping(a);
    c += Wrapping(b);
    assert!(c.0 == a.wrapping_add(b));
    let mut c = Wrapping(a);
    c -= Wrapping(b);
    assert!(c.0 == a.wrapping_sub(b));
    let mut c = Wrapping(a);
    c ^= Wrapping(b);
    assert!(c.0 == a ^ b);
    assert!((Wrapping(a) == Wrapping(b)) == (a == b));
}

#[kani::proof]
fn shim_wrapping_u64() {
    let a: u64 = kani::any();
    let b: u64 = kani::any();
    let s: usize = kani::any();
    assert!((Wrapping(a) + Wrapping(b)).0 == a.wrapping_add(b));
    assert!((Wrapping(a) - Wrapping(b)).0 == a.wrapping_sub(b));
    assert!((Wrapping(a) ^ Wrapping(b)).0 == a ^ b);
    assert!((!Wrapping(a)).0 == !a);
    assert!((Wrapping(a) << s).0 == a << ((s % 64) as u32));
    assert!((Wrapping(a) >> s).0 == a >> ((s % 64) as u32));
    let mut c = Wrapping(a);
    c += Wrapping(b);
    assert!(c.0 == a.wrapping_add(b));
    let mut c = Wrapping(a);
    c -= Wrapping(b);
    assert!(c.0 == a.wrapping_sub(b));
    let mut c = Wrapping(a);
    c ^= Wrapping(b);
    assert!(c.0 == a ^ b);
    assert!((Wrapping(a) == Wrapping(b)) == (a == b));
}

// the open little-endian specs le32/le64/from_le32/from_le64 of contracts/shims/std.rs
fn le32(x: u32) -> [u8; 4] { [(x & 0xff) as u8, ((x >> 8) & 0xff) as u8, ((x >> 16) & 0xff) as u8, ((x >> 24) & 0xff) as u8] }
fn le64(x: u64) -> [u8; 8] {
    [(x & 0xff) as u8, ((x >> 8) & 0xff) as u8, ((x >> 16) & 0xff) as u8, ((x >> 24) & 0xff) as u8,
     ((x >> 32) & 0xff) as u8, ((x >> 40) & 0xff) as u8, ((x >> 48) & 0xff) as u8, ((x >> 56) & 0xff) as u8]
}
pub fn from_le32(b: &[u8]) -> u32 { (b[0] as u32) | ((b[1] as u32) << 8) | ((b[2] as u32) << 16) | ((b[3] as u32) << 24) }
pub fn from_le64(b: &[u8]) -> u64 {
    (b[0] as u64) | ((b[1] as u64) << 8) | ((b[2] as u64) << 16) | ((b[3] as u64) << 24)
        | ((b[4] as u64) << 32) | ((b[5] as u64) << 40) | ((b[6] as u64) << 48) | ((b[7] as u64) << 56)
}

#[kani::proof]
fn shim_le_bytes() {
    let x: u32 = kani::any();
    let y: u64 = kani::any();
    assert!(x.to_le_bytes() == le32(x));
    assert!(y.to_le_bytes() == le64(y));
    let b4: [u8; 4] = kani::any();
    let b8: [u8; 8] = kani::any();
    assert!(u32::from_le_bytes(b4) == from_le32(&b4));
    assert!(u64::from_le_bytes(b8) == from_le64(&b8));
}

// D14: bitlen(m) = if m == 0 { 0 } else { 1 + bitlen(m / 2) };  leading_zeros_v: r == 64 - bitlen(self)
fn bitlen(mut m: u64) -> u32 {
    let mut n = 0;
    while m != 0 {
        m /= 2;
        n += 1;
    }
    n
}

#[kani::proof]
#[kani::unwind(66)]
fn shim_leading_zeros() {
    let x: u64 = kani::any();
    assert!(x.leading_zeros() == 64 - bitlen(x));
}

#[kani::proof]
fn shim_unsigned_abs() {
    let x: i32 = kani::any();
    let y: i64 = kani::any();
    let ax: i128 = if x < 0 { -(x as i128) } else { x as i128 };
    let ay: i128 = if y < 0 { -(y as i128) } else { y as i128 };
    assert!(x.unsigned_abs() as i128 == ax);
    assert!(y.unsigned_abs() as i128 == ay);
    // i32::wrapping_sub as used by the jitter spec sub32
    let a: i32 = kani::any();
    let d = a as i64 - x as i64;
    let w = if d > 0x7fff_ffff { d - 0x1_0000_0000 } else if d < -0x8000_0000 { d + 0x1_0000_0000 } else { d };
    assert!(a.wrapping_sub(x) as i64 == w);
}

// D11: `seed.iter().all(|&x| x == 0)` on byte arrays and on Seed512 == "all bytes are zero"
#[kani::proof]
#[kani::unwind(65)]
fn shim_all_zero() {
    let s32: [u8; 32] = kani::any();
    let k: usize = kani::any();
    kani::assume(k < 32);
    let all = s32.iter().all(|&x| x == 0);
    if all { assert!(s32[k] == 0); }
    if s32 == [0u8; 32] { assert!(all); }
    let s64 = rand_xoshiro::Seed512(kani::any());
    let j: usize = kani::any();
    kani::assume(j < 64);
    let all64 = s64.iter().all(|&x| x == 0);
    if all64 { assert!(s64.0[j] == 0); }
    if s64.0 == [0u8; 64] { assert!(all64); }
}
