//! C17: Debug output of the state-hiding generators reachable through the public API.
use core::fmt::Write;
use rand_core::SeedableRng;

pub struct Sink { pub buf: [u8; 64], pub n: usize }
impl core::fmt::Write for Sink {
    fn write_str(&mut self, s: &str) -> core::fmt::Result {
        for b in s.bytes() {
            if self.n < 64 { self.buf[self.n] = b; }
            self.n += 1;
        }
        Ok(())
    }
}

#[kani::proof]
#[kani::unwind(66)]
fn xorshift_debug_is_constant() {
    let seed: [u8; 16] = kani::any();
    let g = rand_xorshift::XorShiftRng::from_seed(seed);
    let expect = b"XorShiftRng {}";
    let mut s = Sink { buf: [0; 64], n: 0 };
    write!(s, "{:?}", g).unwrap();
    let k: usize = kani::any();
    kani::assume(k < expect.len());
    assert!(s.n == expect.len() && s.buf[k] == expect[k]);
    let mut p = Sink { buf: [0; 64], n: 0 };
    write!(p, "{:#?}", g).unwrap();
    assert!(p.n == expect.len() && p.buf[k] == expect[k]);
}
