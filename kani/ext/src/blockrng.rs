//! C05 for the block generators (Hc128Rng, IsaacRng, Isaac64Rng only forward to rand_core::block::BlockRng / BlockRng64):
//! on the real rand_core, with a core whose blocks have arbitrary contents (recorded in a log), every operation returns
//! the stated little-endian projection of the next whole words of the one forward-only word stream
//!     stream[p] = log[p / L][p % L].
use rand_core::block::{BlockRng, BlockRng64, BlockRngCore};
use rand_core::RngCore;

const L: usize = 4; // words per block; parametricity in the block length is argued in DESIGN.md, not proved
const MAXB: usize = 5;
const LF: usize = 2; // block length used by the (bounded) fill_bytes harnesses

pub struct Core32 { pub n: usize, pub log: [[u32; L]; MAXB] }
impl BlockRngCore for Core32 {
    type Item = u32;
    type Results = [u32; L];
    fn generate(&mut self, results: &mut [u32; L]) {
        let b: [u32; L] = kani::any();
        *results = b;
        self.log[self.n] = b;
        self.n += 1;
    }
}
pub struct Core64 { pub n: usize, pub log: [[u64; L]; MAXB] }
impl BlockRngCore for Core64 {
    type Item = u64;
    type Results = [u64; L];
    fn generate(&mut self, results: &mut [u64; L]) {
        let b: [u64; L] = kani::any();
        *results = b;
        self.log[self.n] = b;
        self.n += 1;
    }
}

/// an arbitrary reachable read position: fresh (nothing generated, index == L), or mid-block after generate_and_set(k)
fn any_rng32() -> BlockRng<Core32> {
    let mut r = BlockRng::new(Core32 { n: 0, log: [[0; L]; MAXB] });
    if kani::any() {
        let k: usize = kani::any();
        kani::assume(k < L);
        r.generate_and_set(k);
        // consume up to L further words so that index == L with a generated block is covered as well
        if kani::any() && k == L - 1 { let _ = r.next_u32(); }
    }
    r
}
/// stream position of the next unread word
fn pos32(r: &BlockRng<Core32>) -> usize { if r.core.n == 0 { 0 } else { (r.core.n - 1) * L + r.index() } }
fn word32(r: &BlockRng<Core32>, p: usize) -> u32 { r.core.log[p / L][p % L] }

#[kani::proof]
#[kani::unwind(6)]
fn blockrng_next_u32() {
    let mut r = any_rng32();
    let p = pos32(&r);
    let x = r.next_u32();
    assert!(x == word32(&r, p));
    assert!(pos32(&r) == p + 1);            // forward only, exactly one word consumed
    assert!(r.core.n == p / L + 1);         // a block is generated exactly when the position enters it
}

#[kani::proof]
#[kani::unwind(6)]
fn blockrng_next_u64() {
    let mut r = any_rng32();
    let p = pos32(&r);
    let x = r.next_u64();
    assert!(x == ((word32(&r, p + 1) as u64) << 32) | word32(&r, p) as u64);   // (second << 32) | first
    assert!(pos32(&r) == p + 2);
    assert!(r.core.n == (p + 1) / L + 1);
}

pub struct CoreF32 { pub n: usize, pub log: [[u32; LF]; MAXB] }
impl BlockRngCore for CoreF32 {
    type Item = u32;
    type Results = [u32; LF];
    fn generate(&mut self, results: &mut [u32; LF]) {
        let b: [u32; LF] = kani::any();
        *results = b;
        self.log[self.n] = b;
        self.n += 1;
    }
}
// fill_bytes(n): the first n LE bytes of the next ceil(n/4) words, across refills.
// BOUNDED: 2-word blocks, n <= 2 blocks + 3 bytes (19 bytes), every start position (fresh, index 0, 1, exhausted).
#[kani::proof]
#[kani::unwind(8)]
fn blockrng_fill_bytes() {
    let mut r = BlockRng::new(CoreF32 { n: 0, log: [[0; LF]; MAXB] });
    if kani::any() {
        let k: usize = kani::any();
        kani::assume(k < LF);
        r.generate_and_set(k);
        if kani::any() && k == LF - 1 { let _ = r.next_u32(); }
    }
    let p = if r.core.n == 0 { 0 } else { (r.core.n - 1) * LF + r.index() };
    let mut buf = [0u8; 4 * LF * 2 + 3];
    let n: usize = kani::any();
    kani::assume(n <= 4 * LF * 2 + 3);
    r.fill_bytes(&mut buf[..n]);
    let words = (n + 3) / 4;
    let p2 = if r.core.n == 0 { 0 } else { (r.core.n - 1) * LF + r.index() };
    assert!(p2 == p + words);
    let i: usize = kani::any();
    kani::assume(i < n);
    let w = p + i / 4;
    assert!(buf[i] == r.core.log[w / LF][w % LF].to_le_bytes()[i % 4]);
}

// ---- BlockRng64 (Isaac64Rng) ----
fn any_rng64() -> BlockRng64<Core64> {
    let mut r = BlockRng64::new(Core64 { n: 0, log: [[0; L]; MAXB] });
    if kani::any() {
        let k: usize = kani::any();
        kani::assume(k < L);
        r.generate_and_set(k);
        if kani::any() && k == L - 1 { let _ = r.next_u64(); }
    }
    r
}
fn pos64(r: &BlockRng64<Core64>) -> usize { if r.core.n == 0 { 0 } else { (r.core.n - 1) * L + r.index() } }
fn word64(r: &BlockRng64<Core64>, p: usize) -> u64 { r.core.log[p / L][p % L] }

#[kani::proof]
#[kani::unwind(6)]
fn blockrng64_next_u64() {
    let mut r = any_rng64();
    let pending: bool = kani::any();
    if pending { let _ = r.next_u32(); }     // a half word is pending; next_u64 discards it
    let p = pos64(&r);
    let x = r.next_u64();
    assert!(x == word64(&r, p));
    assert!(pos64(&r) == p + 1);
    assert!(r.core.n == p / L + 1);
}

#[kani::proof]
#[kani::unwind(6)]
fn blockrng64_next_u32_pair() {
    // low half, then - on an immediately following next_u32 - the high half of the same word
    let mut r = any_rng64();
    let p = pos64(&r);
    let lo = r.next_u32();
    assert!(lo == word64(&r, p) as u32);
    assert!(pos64(&r) == p + 1);
    let hi = r.next_u32();
    assert!(hi == (word64(&r, p) >> 32) as u32);
    assert!(pos64(&r) == p + 1);             // no further word consumed
    let lo2 = r.next_u32();                   // and the third call starts the next word
    assert!(lo2 == word64(&r, p + 1) as u32);
    assert!(pos64(&r) == p + 2);
}

pub struct CoreF64 { pub n: usize, pub log: [[u64; LF]; MAXB] }
impl BlockRngCore for CoreF64 {
    type Item = u64;
    type Results = [u64; LF];
    fn generate(&mut self, results: &mut [u64; LF]) {
        let b: [u64; LF] = kani::any();
        *results = b;
        self.log[self.n] = b;
        self.n += 1;
    }
}
// BOUNDED: 2-word blocks, n <= 2 blocks + 7 bytes (39 bytes), every start position, with and without a pending half.
#[kani::proof]
#[kani::unwind(8)]
fn blockrng64_fill_bytes() {
    let mut r = BlockRng64::new(CoreF64 { n: 0, log: [[0; LF]; MAXB] });
    if kani::any() {
        let k: usize = kani::any();
        kani::assume(k < LF);
        r.generate_and_set(k);
        if kani::any() && k == LF - 1 { let _ = r.next_u64(); }
    }
    let pending: bool = kani::any();
    if pending { let _ = r.next_u32(); }
    let p = if r.core.n == 0 { 0 } else { (r.core.n - 1) * LF + r.index() };
    let mut buf = [0u8; 8 * LF * 2 + 7];
    let n: usize = kani::any();
    kani::assume(n <= 8 * LF * 2 + 7);
    r.fill_bytes(&mut buf[..n]);
    let words = (n + 7) / 8;
    let p2 = if r.core.n == 0 { 0 } else { (r.core.n - 1) * LF + r.index() };
    assert!(p2 == p + words);
    let i: usize = kani::any();
    kani::assume(i < n);
    let w = p + i / 8;
    assert!(buf[i] == r.core.log[w / LF][w % LF].to_le_bytes()[i % 8]);
}
