//! C09: generators that inherit rand_core's default seed_from_u64 (PCG32 expansion, then from_seed).
use rand_core::SeedableRng;

pub fn pcg32_fill(mut state: u64, seed: &mut [u8]) {
    // rand_core 0.9.x SeedableRng::seed_from_u64
    const MUL: u64 = 6364136223846793005;
    const INC: u64 = 11634580027462260723;
    let mut c = 0;
    while 4 * c < seed.len() {
        state = state.wrapping_mul(MUL).wrapping_add(INC);
        let xorshifted = (((state >> 18) ^ state) >> 27) as u32;
        let rot = (state >> 59) as u32;
        let x = xorshifted.rotate_right(rot).to_le_bytes();
        let mut i = 0;
        while i < 4 && 4 * c + i < seed.len() {
            seed[4 * c + i] = x[i];
            i += 1;
        }
        c += 1;
    }
}

// 64-bit multiplication is abstracted to an uninterpreted function (Ackermann-style memo table): the real
// seed_from_u64 and the reference expansion agree for EVERY interpretation of `wrapping_mul`, in particular the real one.
// (Two bit-blasted copies of eight chained multipliers are out of reach for the SAT back end.)
static mut MUL_ARGS: [(u64, u64, u64); 40] = [(0, 0, 0); 40];
static mut MUL_N: usize = 0;
pub fn mul_uf(a: u64, b: u64) -> u64 {
    unsafe {
        let mut i = 0;
        while i < MUL_N {
            if MUL_ARGS[i].0 == a && MUL_ARGS[i].1 == b { return MUL_ARGS[i].2; }
            i += 1;
        }
        let r: u64 = kani::any();
        assert!(MUL_N < 40);
        MUL_ARGS[MUL_N] = (a, b, r);
        MUL_N += 1;
        r
    }
}

#[kani::proof]
#[kani::unwind(42)]
#[kani::stub(u64::wrapping_mul, mul_uf)]
fn xorshift_seed_from_u64_is_pcg32() {
    let x: u64 = kani::any();
    let mut seed = [0u8; 16];
    pcg32_fill(x, &mut seed);
    assert!(rand_xorshift::XorShiftRng::seed_from_u64(x) == rand_xorshift::XorShiftRng::from_seed(seed));
}
