//! C09: generators that inherit rand_core's default seed_from_u64 (PCG32 expansion, then from_seed).
use rand_core::SeedableRng;

pub fn pcg32_fill(mut state: u64, seed: &mut [u8]) {
    // rand_core 0.9.x SeedableRng::seed_from_u64
    const MUL: u64 = 6364136223846793005;
    const INC: u64 = 11634580027462260723;
    let mut c = 0;
    while 4 * c < seed.len() {
        state = state.wrapping_mul(MUL).wrapping_add(INC);
        let xorshifted = (((state >> 18) ^ state) >> 27) as u32;
        let rot = (state >> 59) as u32;
        let x = xorshifted.rotate_right(rot).to_le_bytes();
        let mut i = 0;
        while i < 4 && 4 * c + i < seed.len() {
            seed[4 * c + i] = x[i];
            i += 1;
        }
        c += 1;
    }
}

// 64-bit multiplication is abstracted to an uninterpreted function (Ackermann-style memo table): the real
// seed_from_u64 and the reference expansion agree for EVERY interpretation of `wrapping_mul`, in particular the real one.
// (Two bit-blasted copies of eight chained multipliers are out of reach for the SAT back end.)
static mut MUL_ARGS: [(u64, u64, u64); 40] = [(0, 0, 0); 40];
static mut MUL_N: usize = 0;
pub fn mul_uf(a: u64, b: u64) -> u64 {
    unsafe {
        let mut i = 0;
        while i < MUL_N {
            if MUL_ARGS[i].0 == a && MUL_ARGS[i].1 == b { return MUL_ARGS[i].2; }
            i += 1;
        }
        let r: u64 = kani::any();
        assert!(MUL_N < 40);
        MUL_ARGS[MUL_N] = (a, b, r);
        MUL_N += 1;
        r
    }
}

#[kani::proof]
#[kani::unwind(42)]
#[kani::stub(u64::wrapping_mul, mul_uf)]
fn xorshift_seed_from_u64_is_pcg32() {
    let x: u64 = kani::any();
    let mut seed = [0u8; 16];
    pcg32_fill(x, &mut seed);
    assert!(rand_xorshift::XorShiftRng::seed_from_u64(x) == rand_xorshift::XorShiftRng::from_seed(seed));
}

// ---- C08/C09: XorShiftRng overrides from_rng / try_from_rng: redraw only on an all-zero block, state == LE words of the
// first block that is not all zero, source advanced by exactly the blocks drawn; try_from_rng agrees with from_rng on a
// source that does not fail and returns the source's error (never a generator) when the source fails. ----
use rand_core::{RngCore, TryRngCore};
pub struct Blocks { pub calls: usize, pub b: [[u8; 16]; 3], pub fail_at: usize }
impl RngCore for Blocks {
    fn next_u32(&mut self) -> u32 { panic!() }
    fn next_u64(&mut self) -> u64 { panic!() }
    fn fill_bytes(&mut self, dest: &mut [u8]) {
        assert!(dest.len() == 16 && self.calls < 3);
        dest.copy_from_slice(&self.b[self.calls]);
        self.calls += 1;
    }
}
#[derive(Debug, PartialEq, Clone, Copy)]
pub struct E(pub u32);
impl core::fmt::Display for E { fn fmt(&self, _f: &mut core::fmt::Formatter<'_>) -> core::fmt::Result { Ok(()) } }
pub struct TryBlocks { pub s: Blocks, pub err: E }
impl TryRngCore for TryBlocks {
    type Error = E;
    fn try_next_u32(&mut self) -> Result<u32, E> { panic!() }
    fn try_next_u64(&mut self) -> Result<u64, E> { panic!() }
    fn try_fill_bytes(&mut self, dest: &mut [u8]) -> Result<(), E> {
        if self.s.calls == self.s.fail_at { self.s.calls += 1; return Err(self.err); }
        self.s.fill_bytes(dest);
        Ok(())
    }
}
fn any_blocks() -> Blocks {
    let b: [[u8; 16]; 3] = kani::any();
    kani::assume(b[2] != [0u8; 16]);       // at most two leading all-zero blocks (the loop is unbounded by design)
    Blocks { calls: 0, b, fail_at: usize::MAX }
}
fn first_nonzero(b: &[[u8; 16]; 3]) -> usize { if b[0] != [0u8; 16] { 0 } else if b[1] != [0u8; 16] { 1 } else { 2 } }

#[kani::proof]
#[kani::unwind(20)]
fn xorshift_from_rng_redraws_only_on_zero() {
    let mut src = any_blocks();
    let g = rand_xorshift::XorShiftRng::from_rng(&mut src);
    let k = first_nonzero(&src.b);
    assert!(src.calls == k + 1);                                               // exactly the blocks drawn, no more
    assert!(g == rand_xorshift::XorShiftRng::from_seed(src.b[k]));             // verbatim LE words of that block
}
#[kani::proof]
#[kani::unwind(20)]
fn xorshift_try_from_rng_agrees_or_fails() {
    let mut src = TryBlocks { s: any_blocks(), err: E(kani::any()) };
    src.s.fail_at = kani::any();
    let k = first_nonzero(&src.s.b);
    let r = rand_xorshift::XorShiftRng::try_from_rng(&mut src);
    match r {
        Ok(g) => {
            assert!(src.s.fail_at > k);                                        // the source did not fail before block k was drawn
            assert!(src.s.calls == k + 1);
            assert!(g == rand_xorshift::XorShiftRng::from_seed(src.s.b[k]));   // same generator as from_rng
        }
        Err(e) => { assert!(src.s.fail_at <= k && e == src.err && src.s.calls == src.s.fail_at + 1); }
    }
}
