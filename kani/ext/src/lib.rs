//! Kani proof harnesses on the real compiled crates of /repo and on the rand_core dependency (external API only).
#![allow(dead_code)]
#[cfg(kani)]
pub mod std_shims;
#[cfg(kani)]
pub mod rc_glue;
#[cfg(kani)]
pub mod blockrng;
