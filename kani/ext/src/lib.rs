//! Kani proof harnesses on the real compiled crates of /repo and on the rand_core dependency (external API only).
#![allow(dead_code)]
#[cfg(kani)]
pub mod std_shims;
#[cfg(kani)]
pub mod rc_glue;
#[cfg(kani)]
pub mod blockrng;
#[cfg(kani)]
pub mod seeding;
#[cfg(kani)]
pub mod serde_rt;
#[cfg(kani)]
pub mod debug;
#[cfg(kani)]
pub mod api;
pub fn id<T>(x: T) -> T { x }
