//! C11: serde snapshot (through the derive output of the real crates, bincode as the data format) restores a generator
//! that compares equal to the original (== is full-state equality, C10), and serializing leaves the original untouched.
//! `from_seed(any)` reaches every non-zero state of the linear generators (every state of SplitMix64), so "any point of
//! any history" is covered by "any state".
use rand_core::SeedableRng;

macro_rules! roundtrip {
    ($name:ident, $ty:ty, $n:expr, $mk:expr) => {
        #[kani::proof]
        #[kani::unwind(70)]
        fn $name() {
            let seed: [u8; $n] = kani::any();
            let g = <$ty>::from_seed($mk(seed));
            let before = g.clone();
            let bytes = bincode::serialize(&g).unwrap();
            assert!(g == before);                       // serializing does not disturb the original
            let g2: $ty = bincode::deserialize(&bytes).unwrap();
            assert!(g2 == g);
        }
    };
}
roundtrip!(serde_splitmix64, rand_xoshiro::SplitMix64, 8, crate::id);
roundtrip!(serde_xoroshiro64star, rand_xoshiro::Xoroshiro64Star, 8, crate::id);
roundtrip!(serde_xoroshiro64starstar, rand_xoshiro::Xoroshiro64StarStar, 8, crate::id);
roundtrip!(serde_xoroshiro128plus, rand_xoshiro::Xoroshiro128Plus, 16, crate::id);
roundtrip!(serde_xoroshiro128plusplus, rand_xoshiro::Xoroshiro128PlusPlus, 16, crate::id);
roundtrip!(serde_xoroshiro128starstar, rand_xoshiro::Xoroshiro128StarStar, 16, crate::id);
roundtrip!(serde_xoshiro128plus, rand_xoshiro::Xoshiro128Plus, 16, crate::id);
roundtrip!(serde_xoshiro128plusplus, rand_xoshiro::Xoshiro128PlusPlus, 16, crate::id);
roundtrip!(serde_xoshiro128starstar, rand_xoshiro::Xoshiro128StarStar, 16, crate::id);
roundtrip!(serde_xoshiro256plus, rand_xoshiro::Xoshiro256Plus, 32, crate::id);
roundtrip!(serde_xoshiro256plusplus, rand_xoshiro::Xoshiro256PlusPlus, 32, crate::id);
roundtrip!(serde_xoshiro256starstar, rand_xoshiro::Xoshiro256StarStar, 32, crate::id);
roundtrip!(serde_xoshiro512plus, rand_xoshiro::Xoshiro512Plus, 64, rand_xoshiro::Seed512);
roundtrip!(serde_xoshiro512plusplus, rand_xoshiro::Xoshiro512PlusPlus, 64, rand_xoshiro::Seed512);
roundtrip!(serde_xoshiro512starstar, rand_xoshiro::Xoshiro512StarStar, 64, rand_xoshiro::Seed512);
roundtrip!(serde_xorshift, rand_xorshift::XorShiftRng, 16, crate::id);
