//! T5: the assumed contracts on rand_core 0.9 code that the Verus side cannot ingest, checked on the real dependency.
use crate::std_shims::{from_le32, from_le64};
use rand_core::le::{read_u32_into, read_u64_into};
use rand_core::{RngCore, SeedableRng, TryRngCore};

// le::read_u32_into / read_u64_into: dst[i] == LE word i of src, for every destination length used by the crates
macro_rules! read_into {
    ($name:ident, $f:ident, $t:ty, $n:expr, $w:expr, $from:ident) => {
        #[kani::proof]
        #[kani::unwind(10)]
        fn $name() {
            let src: [u8; $n * $w] = kani::any();
            let mut dst: [$t; $n] = [0; $n];
            $f(&src, &mut dst);
            let k: usize = kani::any();
            kani::assume(k < $n);
            assert!(dst[k] == $from(&src[$w * k..$w * k + $w]));
        }
    };
}
read_into!(rc_read_u32_into_2, read_u32_into, u32, 2, 4, from_le32);
read_into!(rc_read_u32_into_4, read_u32_into, u32, 4, 4, from_le32);
read_into!(rc_read_u32_into_8, read_u32_into, u32, 8, 4, from_le32);
read_into!(rc_read_u64_into_1, read_u64_into, u64, 1, 8, from_le64);
read_into!(rc_read_u64_into_2, read_u64_into, u64, 2, 8, from_le64);
read_into!(rc_read_u64_into_4, read_u64_into, u64, 4, 8, from_le64);
read_into!(rc_read_u64_into_8, read_u64_into, u64, 8, 8, from_le64);

/// A source that hands out arbitrary bytes and records how it was used.
pub struct Recorder {
    pub calls: usize,
    pub last_len: usize,
    pub bytes: [u8; 64],
    pub fail_at: usize, // try_fill_bytes fails at this call number (usize::MAX: never)
}
impl Recorder {
    pub fn new() -> Self { Recorder { calls: 0, last_len: 0, bytes: kani::any(), fail_at: usize::MAX } }
}
impl RngCore for Recorder {
    fn next_u32(&mut self) -> u32 { panic!("the constructors must not call next_u32") }
    fn next_u64(&mut self) -> u64 { panic!("the constructors must not call next_u64") }
    fn fill_bytes(&mut self, dest: &mut [u8]) {
        self.calls += 1;
        self.last_len = dest.len();
        assert!(dest.len() <= 64);
        let n = dest.len();
        dest.copy_from_slice(&self.bytes[..n]);
    }
}
#[derive(Debug, PartialEq, Eq, Clone, Copy)]
pub struct SrcErr(pub u32);
impl core::fmt::Display for SrcErr {
    fn fmt(&self, _f: &mut core::fmt::Formatter<'_>) -> core::fmt::Result { Ok(()) }
}
pub struct FallibleRecorder { pub r: Recorder, pub err: SrcErr }
impl TryRngCore for FallibleRecorder {
    type Error = SrcErr;
    fn try_next_u32(&mut self) -> Result<u32, SrcErr> { panic!("must not be called") }
    fn try_next_u64(&mut self) -> Result<u64, SrcErr> { panic!("must not be called") }
    fn try_fill_bytes(&mut self, dest: &mut [u8]) -> Result<(), SrcErr> {
        if self.r.calls == self.r.fail_at {
            self.r.calls += 1;
            return Err(self.err);
        }
        self.r.fill_bytes(dest);
        Ok(())
    }
}

// SeedableRng::from_rng default: exactly one fill_bytes call of exactly the seed length, then from_seed of those bytes
macro_rules! from_rng_default {
    ($name:ident, $tname:ident, $ty:ty, $n:expr, $mk:expr) => {
        #[kani::proof]
        #[kani::unwind(66)]
        fn $name() {
            let mut src = Recorder::new();
            let g = <$ty>::from_rng(&mut src);
            assert!(src.calls == 1 && src.last_len == $n);
            let mut seed = [0u8; $n];
            seed.copy_from_slice(&src.bytes[..$n]);
            assert!(g == <$ty>::from_seed($mk(seed)));
        }
        #[kani::proof]
        #[kani::unwind(66)]
        fn $tname() {
            let mut src = FallibleRecorder { r: Recorder::new(), err: SrcErr(kani::any()) };
            let fails: bool = kani::any();
            if fails { src.r.fail_at = 0; }
            let r = <$ty>::try_from_rng(&mut src);
            assert!(src.r.calls == 1);
            match r {
                Ok(g) => {
                    assert!(!fails && src.r.last_len == $n);
                    let mut seed = [0u8; $n];
                    seed.copy_from_slice(&src.r.bytes[..$n]);
                    assert!(g == <$ty>::from_seed($mk(seed)));
                }
                Err(e) => assert!(fails && e == src.err),
            }
        }
    };
}
from_rng_default!(rc_from_rng_default_8, rc_try_from_rng_default_8, rand_xoshiro::Xoroshiro64Star, 8, crate::id);
from_rng_default!(rc_from_rng_default_16, rc_try_from_rng_default_16, rand_xoshiro::Xoroshiro128Plus, 16, crate::id);
from_rng_default!(rc_from_rng_default_32, rc_try_from_rng_default_32, rand_xoshiro::Xoshiro256PlusPlus, 32, crate::id);
from_rng_default!(rc_from_rng_default_64, rc_try_from_rng_default_64, rand_xoshiro::Xoshiro512Plus, 64, rand_xoshiro::Seed512);

// The same two obligations for every other generator that relies on the defaulted from_rng / try_from_rng (the four above cover
// one type per seed length; these make the claim independent of "nobody overrides the default", which the function census of the
// Verus units guards as well).
from_rng_default!(rc_from_rng_splitmix64, rc_try_from_rng_splitmix64, rand_xoshiro::SplitMix64, 8, crate::id);
from_rng_default!(rc_from_rng_xoroshiro64starstar, rc_try_from_rng_xoroshiro64starstar, rand_xoshiro::Xoroshiro64StarStar, 8, crate::id);
from_rng_default!(rc_from_rng_xoroshiro128plusplus, rc_try_from_rng_xoroshiro128plusplus, rand_xoshiro::Xoroshiro128PlusPlus, 16, crate::id);
from_rng_default!(rc_from_rng_xoroshiro128starstar, rc_try_from_rng_xoroshiro128starstar, rand_xoshiro::Xoroshiro128StarStar, 16, crate::id);
from_rng_default!(rc_from_rng_xoshiro128plus, rc_try_from_rng_xoshiro128plus, rand_xoshiro::Xoshiro128Plus, 16, crate::id);
from_rng_default!(rc_from_rng_xoshiro128plusplus, rc_try_from_rng_xoshiro128plusplus, rand_xoshiro::Xoshiro128PlusPlus, 16, crate::id);
from_rng_default!(rc_from_rng_xoshiro128starstar, rc_try_from_rng_xoshiro128starstar, rand_xoshiro::Xoshiro128StarStar, 16, crate::id);
from_rng_default!(rc_from_rng_xoshiro256plus, rc_try_from_rng_xoshiro256plus, rand_xoshiro::Xoshiro256Plus, 32, crate::id);
from_rng_default!(rc_from_rng_xoshiro256starstar, rc_try_from_rng_xoshiro256starstar, rand_xoshiro::Xoshiro256StarStar, 32, crate::id);
from_rng_default!(rc_from_rng_xoshiro512plusplus, rc_try_from_rng_xoshiro512plusplus, rand_xoshiro::Xoshiro512PlusPlus, 64, rand_xoshiro::Seed512);
from_rng_default!(rc_from_rng_xoshiro512starstar, rc_try_from_rng_xoshiro512starstar, rand_xoshiro::Xoshiro512StarStar, 64, rand_xoshiro::Seed512);

// ---- C08 on the seeding routes that draw from a source: whatever the constructor calls on the source (fill_bytes or word draws -
// the source below serves all of them from ONE little-endian byte stream), an all-zero block never yields the zero state but the
// documented replacement, and every other block is used verbatim.  Kept apart from the C09 harnesses above, which also pin down
// *how* the source is consumed: a constructor that draws words instead of bytes violates C09, not C08.
pub struct LeSource { pub bytes: [u8; 64], pub pos: usize, pub fail: bool, pub err: SrcErr }
impl LeSource {
    pub fn new() -> Self { LeSource { bytes: kani::any(), pos: 0, fail: false, err: SrcErr(0) } }
    fn take(&mut self, dest: &mut [u8]) {
        let n = dest.len();
        assert!(self.pos + n <= 64);       // one seed's worth: a constructor that draws more fails here
        dest.copy_from_slice(&self.bytes[self.pos..self.pos + n]);
        self.pos += n;
    }
}
impl RngCore for LeSource {
    fn next_u32(&mut self) -> u32 { let mut b = [0u8; 4]; self.take(&mut b); u32::from_le_bytes(b) }
    fn next_u64(&mut self) -> u64 { let mut b = [0u8; 8]; self.take(&mut b); u64::from_le_bytes(b) }
    fn fill_bytes(&mut self, dest: &mut [u8]) { self.take(dest) }
}
pub struct TryLeSource(pub LeSource);
impl TryRngCore for TryLeSource {
    type Error = SrcErr;
    fn try_next_u32(&mut self) -> Result<u32, SrcErr> { Ok(self.0.next_u32()) }
    fn try_next_u64(&mut self) -> Result<u64, SrcErr> { Ok(self.0.next_u64()) }
    fn try_fill_bytes(&mut self, dest: &mut [u8]) -> Result<(), SrcErr> { self.0.fill_bytes(dest); Ok(()) }
}
macro_rules! zero_block {
    ($name:ident, $tname:ident, $ty:ty, $n:expr, $mk:expr) => {
        #[kani::proof]
        #[kani::unwind(66)]
        fn $name() {
            let mut src = LeSource::new();
            let g = <$ty>::from_rng(&mut src);
            let mut seed = [0u8; $n];
            seed.copy_from_slice(&src.bytes[..$n]);
            if seed == [0u8; $n] { assert!(g == <$ty>::seed_from_u64(0)); } else { assert!(g == <$ty>::from_seed($mk(seed))); }
        }
        #[kani::proof]
        #[kani::unwind(66)]
        fn $tname() {
            let mut src = TryLeSource(LeSource::new());
            let g = <$ty>::try_from_rng(&mut src).unwrap();
            let mut seed = [0u8; $n];
            seed.copy_from_slice(&src.0.bytes[..$n]);
            if seed == [0u8; $n] { assert!(g == <$ty>::seed_from_u64(0)); } else { assert!(g == <$ty>::from_seed($mk(seed))); }
        }
    };
}
zero_block!(rc_zero_from_rng_xoroshiro64star, rc_zero_try_from_rng_xoroshiro64star, rand_xoshiro::Xoroshiro64Star, 8, crate::id);
zero_block!(rc_zero_from_rng_xoroshiro64starstar, rc_zero_try_from_rng_xoroshiro64starstar, rand_xoshiro::Xoroshiro64StarStar, 8, crate::id);
zero_block!(rc_zero_from_rng_xoroshiro128plus, rc_zero_try_from_rng_xoroshiro128plus, rand_xoshiro::Xoroshiro128Plus, 16, crate::id);
zero_block!(rc_zero_from_rng_xoroshiro128plusplus, rc_zero_try_from_rng_xoroshiro128plusplus, rand_xoshiro::Xoroshiro128PlusPlus, 16, crate::id);
zero_block!(rc_zero_from_rng_xoroshiro128starstar, rc_zero_try_from_rng_xoroshiro128starstar, rand_xoshiro::Xoroshiro128StarStar, 16, crate::id);
zero_block!(rc_zero_from_rng_xoshiro128plus, rc_zero_try_from_rng_xoshiro128plus, rand_xoshiro::Xoshiro128Plus, 16, crate::id);
zero_block!(rc_zero_from_rng_xoshiro128plusplus, rc_zero_try_from_rng_xoshiro128plusplus, rand_xoshiro::Xoshiro128PlusPlus, 16, crate::id);
zero_block!(rc_zero_from_rng_xoshiro128starstar, rc_zero_try_from_rng_xoshiro128starstar, rand_xoshiro::Xoshiro128StarStar, 16, crate::id);
zero_block!(rc_zero_from_rng_xoshiro256plus, rc_zero_try_from_rng_xoshiro256plus, rand_xoshiro::Xoshiro256Plus, 32, crate::id);
zero_block!(rc_zero_from_rng_xoshiro256plusplus, rc_zero_try_from_rng_xoshiro256plusplus, rand_xoshiro::Xoshiro256PlusPlus, 32, crate::id);
zero_block!(rc_zero_from_rng_xoshiro256starstar, rc_zero_try_from_rng_xoshiro256starstar, rand_xoshiro::Xoshiro256StarStar, 32, crate::id);
zero_block!(rc_zero_from_rng_xoshiro512plus, rc_zero_try_from_rng_xoshiro512plus, rand_xoshiro::Xoshiro512Plus, 64, rand_xoshiro::Seed512);
zero_block!(rc_zero_from_rng_xoshiro512plusplus, rc_zero_try_from_rng_xoshiro512plusplus, rand_xoshiro::Xoshiro512PlusPlus, 64, rand_xoshiro::Seed512);
zero_block!(rc_zero_from_rng_xoshiro512starstar, rc_zero_try_from_rng_xoshiro512starstar, rand_xoshiro::Xoshiro512StarStar, 64, rand_xoshiro::Seed512);
