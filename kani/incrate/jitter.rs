// harnesses for jitter (none yet)
