// In-crate Kani harnesses for rand_jitter (included under cfg(all(kani, rngs_verif))).
use super::*;
use core::sync::atomic::{AtomicUsize, Ordering::SeqCst};

struct Sink { buf: [u8; 64], n: usize }
impl fmt::Write for Sink {
    fn write_str(&mut self, s: &str) -> fmt::Result {
        for b in s.bytes() {
            if self.n < 64 { self.buf[self.n] = b; }
            self.n += 1;
        }
        Ok(())
    }
}

// ---- C17: Debug of a JitterRng in an arbitrary state ---------------------------------------------------------------
#[kani::proof]
#[kani::unwind(66)]
fn jitter_debug_is_constant() {
    use core::fmt::Write;
    let g = JitterRng { data: kani::any(), rounds: kani::any(), timer: || 0u64, mem_prev_index: kani::any(), data_half_used: kani::any() };
    let expect = b"JitterRng {}";
    let mut s = Sink { buf: [0; 64], n: 0 };
    write!(s, "{:?}", g).unwrap();
    let k: usize = kani::any();
    kani::assume(k < expect.len());
    assert!(s.n == expect.len() && s.buf[k] == expect[k]);
    let mut p = Sink { buf: [0; 64], n: 0 };
    write!(p, "{:#?}", g).unwrap();
    assert!(p.n == expect.len() && p.buf[k] == expect[k]);
}

// ---- C12: number of timer readings (the Verus contracts fix the values; the count is decided here) -----------------
static READS: AtomicUsize = AtomicUsize::new(0);
fn counting_timer() -> u64 {
    READS.fetch_add(1, SeqCst);
    kani::any()
}
fn any_rng() -> JitterRng<fn() -> u64> {
    JitterRng { data: kani::any(), rounds: kani::any(), timer: counting_timer, mem_prev_index: kani::any(), data_half_used: kani::any() }
}
#[kani::proof]
#[kani::unwind(18)]
fn jitter_random_loop_cnt_reads_once() {
    let mut g = any_rng();
    let r = g.random_loop_cnt(4);
    assert!(READS.load(SeqCst) == 1 && r < 16);
}
