// harnesses for xorshift (none yet)
