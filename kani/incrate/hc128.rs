// In-crate Kani harnesses for rand_hc (included into rand_hc::hc128::rngs_verif_harness under cfg(all(kani, rngs_verif))).
use super::*;
use rand_core::{RngCore, SeedableRng};

fn any_core() -> Hc128Core {
    Hc128Core { t: kani::any(), counter1024: kani::any() }
}

// ---- C10 (fallback / second proof of the index part): Hc128Rng::eq distinguishes every pair of read positions ----
// Equality of the cores is proved for arbitrary cores on the Verus side; here the core is a fixed one (so that
// generate() is concrete and cheap) and the read positions range over ALL pairs 0..=16, reached both by
// generate_and_set and by consuming words, including "last word left" vs "block used up".
fn at_position(p: usize) -> Hc128Rng {
    // read position p of the block generated from the fixed core: generate_and_set(p) for p < 16; position 16 ("block used
    // up") is reached by consuming the last word
    let mut r = Hc128Rng(BlockRng::new(Hc128Core { t: [0u32; 1024], counter1024: 0 }));
    if p < 16 {
        r.0.generate_and_set(p);
    } else {
        r.0.generate_and_set(15);
        let _ = r.next_u32();
    }
    r
}
#[kani::proof]
#[kani::unwind(4100)]
fn hc128_rng_eq_all_index_pairs() {
    let p1: usize = kani::any();
    let p2: usize = kani::any();
    kani::assume(p1 <= 16 && p2 <= 16);
    let r1 = at_position(p1);
    let r2 = at_position(p2);
    // same core (one generate each from the same state), read positions p1 and p2 in 0..=16
    assert!((r1 == r2) == (p1 == p2));
}

// ---- C02/C09: from_seed passes the little-endian words of the seed to init (init itself: Verus) -----------------
fn init_stub(seed: [u32; SEED_WORDS]) -> Hc128Core {
    let mut t = [0u32; 1024];
    let mut i = 0;
    while i < SEED_WORDS {
        t[i] = seed[i];
        i += 1;
    }
    Hc128Core { t, counter1024: 0 }
}
fn le(b: &[u8], k: usize) -> u32 { u32::from_le_bytes([b[4 * k], b[4 * k + 1], b[4 * k + 2], b[4 * k + 3]]) }

#[kani::proof]
#[kani::unwind(10)]
#[kani::stub(Hc128Core::init, init_stub)]
fn hc128_from_seed_le_words() {
    let seed: [u8; 32] = kani::any();
    let core = Hc128Core::from_seed(seed);
    let k: usize = kani::any();
    kani::assume(k < 8);
    assert!(core.t[k] == le(&seed, k));
    let r = Hc128Rng::from_seed(seed);
    assert!(r.0.core.t[k] == le(&seed, k) && r.0.index() == 16);   // the wrapper starts with an empty buffer
}

// ---- C09: Hc128Rng::seed_from_u64 is rand_core's PCG32 expansion followed by from_seed ---------------------------
fn pcg32_seed(mut state: u64) -> [u8; 32] {
    // rand_core 0.9 SeedableRng::seed_from_u64: PCG32 with MUL 6364136223846793005, INC 11634580027462260723, XSH RR 64->32
    const MUL: u64 = 6364136223846793005;
    const INC: u64 = 11634580027462260723;
    let mut seed = [0u8; 32];
    let mut c = 0;
    while c < 8 {
        state = state.wrapping_mul(MUL).wrapping_add(INC);
        let xorshifted = (((state >> 18) ^ state) >> 27) as u32;
        let rot = (state >> 59) as u32;
        let x = xorshifted.rotate_right(rot);
        let b = x.to_le_bytes();
        seed[4 * c] = b[0];
        seed[4 * c + 1] = b[1];
        seed[4 * c + 2] = b[2];
        seed[4 * c + 3] = b[3];
        c += 1;
    }
    seed
}
// 64-bit multiplication abstracted to an uninterpreted function (memo table): agreement for every interpretation of
// wrapping_mul implies agreement for the real one; two bit-blasted copies of eight chained multipliers are out of reach.
use core::sync::atomic::{AtomicU64, AtomicUsize, Ordering::Relaxed};
static MUL_A: [AtomicU64; 40] = [const { AtomicU64::new(0) }; 40];
static MUL_B: [AtomicU64; 40] = [const { AtomicU64::new(0) }; 40];
static MUL_R: [AtomicU64; 40] = [const { AtomicU64::new(0) }; 40];
static MUL_N: AtomicUsize = AtomicUsize::new(0);
fn mul_uf(a: u64, b: u64) -> u64 {
    let n = MUL_N.load(Relaxed);
    let mut i = 0;
    while i < n {
        if MUL_A[i].load(Relaxed) == a && MUL_B[i].load(Relaxed) == b { return MUL_R[i].load(Relaxed); }
        i += 1;
    }
    let r: u64 = kani::any();
    assert!(n < 40);
    MUL_A[n].store(a, Relaxed);
    MUL_B[n].store(b, Relaxed);
    MUL_R[n].store(r, Relaxed);
    MUL_N.store(n + 1, Relaxed);
    r
}
#[kani::proof]
#[kani::unwind(42)]
#[kani::stub(Hc128Core::init, init_stub)]
#[kani::stub(u64::wrapping_mul, mul_uf)]
fn hc128_seed_from_u64_is_pcg32() {
    let x: u64 = kani::any();
    let r = Hc128Rng::seed_from_u64(x);
    let e = pcg32_seed(x);
    let k: usize = kani::any();
    kani::assume(k < 8);
    assert!(r.0.core.t[k] == le(&e, k));
}

// ---- C09: from_rng / try_from_rng draw exactly one seed's worth of bytes -----------------------------------------
struct Recorder { calls: usize, last_len: usize, bytes: [u8; 32], fail: bool }
impl RngCore for Recorder {
    fn next_u32(&mut self) -> u32 { panic!() }
    fn next_u64(&mut self) -> u64 { panic!() }
    fn fill_bytes(&mut self, dest: &mut [u8]) {
        self.calls += 1;
        self.last_len = dest.len();
        assert!(dest.len() == 32);
        dest.copy_from_slice(&self.bytes);
    }
}
#[derive(Debug, PartialEq, Clone, Copy)]
struct SrcErr(u32);
impl core::fmt::Display for SrcErr {
    fn fmt(&self, _f: &mut fmt::Formatter) -> fmt::Result { Ok(()) }
}
struct Fallible { r: Recorder, err: SrcErr }
impl TryRngCore for Fallible {
    type Error = SrcErr;
    fn try_next_u32(&mut self) -> Result<u32, SrcErr> { panic!() }
    fn try_next_u64(&mut self) -> Result<u64, SrcErr> { panic!() }
    fn try_fill_bytes(&mut self, dest: &mut [u8]) -> Result<(), SrcErr> {
        if self.r.fail { self.r.calls += 1; return Err(self.err); }
        self.r.fill_bytes(dest);
        Ok(())
    }
}
#[kani::proof]
#[kani::unwind(34)]
#[kani::stub(Hc128Core::init, init_stub)]
fn hc128_from_rng_one_seed() {
    let mut src = Recorder { calls: 0, last_len: 0, bytes: kani::any(), fail: false };
    let r = Hc128Rng::from_rng(&mut src);
    assert!(src.calls == 1 && src.last_len == 32);
    let k: usize = kani::any();
    kani::assume(k < 8);
    assert!(r.0.core.t[k] == le(&src.bytes, k));
}
#[kani::proof]
#[kani::unwind(34)]
#[kani::stub(Hc128Core::init, init_stub)]
fn hc128_try_from_rng() {
    let mut src = Fallible { r: Recorder { calls: 0, last_len: 0, bytes: kani::any(), fail: kani::any() }, err: SrcErr(kani::any()) };
    let r = Hc128Rng::try_from_rng(&mut src);
    assert!(src.r.calls == 1);
    match r {
        Ok(g) => {
            assert!(!src.r.fail);
            let k: usize = kani::any();
            kani::assume(k < 8);
            assert!(g.0.core.t[k] == le(&src.r.bytes, k));
        }
        Err(e) => assert!(src.r.fail && e == src.err),
    }
}

// ---- C17: Debug of Hc128Core / Hc128Rng never shows state ----------------------------------------------------------
struct Sink { buf: [u8; 96], n: usize }
impl fmt::Write for Sink {
    fn write_str(&mut self, s: &str) -> fmt::Result {
        for b in s.bytes() {
            if self.n < 96 { self.buf[self.n] = b; }
            self.n += 1;
        }
        Ok(())
    }
}
#[kani::proof]
#[kani::unwind(100)]
fn hc128_core_debug_is_constant() {
    use core::fmt::Write;
    let a = any_core();
    let mut s = Sink { buf: [0; 96], n: 0 };
    write!(s, "{:?}", a).unwrap();
    let expect = b"Hc128Core {}";
    assert!(s.n == expect.len());
    let k: usize = kani::any();
    kani::assume(k < expect.len());
    assert!(s.buf[k] == expect[k]);
    let mut p = Sink { buf: [0; 96], n: 0 };
    write!(p, "{:#?}", a).unwrap();
    assert!(p.n == expect.len() && p.buf[k] == expect[k]);
}
