// harnesses for isaac_array (none yet)
