// In-crate Kani harnesses for rand_isaac::isaac (included under cfg(all(kani, rngs_verif))).
use super::*;
use rand_core::{RngCore, SeedableRng};

fn any_core() -> IsaacCore {
    IsaacCore { mem: { let m: [u32; RAND_SIZE] = kani::any(); m.map(w) }, a: w(kani::any()), b: w(kani::any()), c: w(kani::any()) }
}

// recording stub for the private init: keeps the slot array it was given and the number of passes (in `a`)
fn init_stub(mem: [w32; RAND_SIZE], rounds: u32) -> IsaacCore {
    IsaacCore { mem, a: w(rounds as u32), b: w(0), c: w(0) }
}
fn le(b: &[u8], k: usize) -> u32 {
    let mut x: u32 = 0;
    let mut i = 0;
    while i < 4 {
        x |= (b[4 * k + i] as u32) << (8 * i);
        i += 1;
    }
    x
}

// ---- C03/C09: from_seed fills the first 8 slots with the LE words of the seed, zeros elsewhere, two passes ----
#[kani::proof]
#[kani::unwind(12)]
#[kani::stub(IsaacCore::init, init_stub)]
fn isaac_from_seed_layout() {
    let seed: [u8; 32] = kani::any();
    let core = IsaacCore::from_seed(seed);
    let k: usize = kani::any();
    kani::assume(k < RAND_SIZE);
    if k < 8 { assert!(core.mem[k].0 == le(&seed, k)); } else { assert!(core.mem[k].0 == 0); }
    assert!(core.a.0 == 2);
}

// ---- C09: from_rng / try_from_rng: 1024 bytes from exactly one fill_bytes call, LE words, two passes ----
struct Recorder { calls: usize, last_len: usize, bytes: [u8; 1024], fail: bool }
impl RngCore for Recorder {
    fn next_u32(&mut self) -> u32 { panic!() }
    fn next_u64(&mut self) -> u64 { panic!() }
    fn fill_bytes(&mut self, dest: &mut [u8]) {
        self.calls += 1;
        self.last_len = dest.len();
        assert!(dest.len() == 1024);
        dest.copy_from_slice(&self.bytes);
    }
}
#[derive(Debug, PartialEq, Clone, Copy)]
struct SrcErr(u32);
impl core::fmt::Display for SrcErr {
    fn fmt(&self, _f: &mut fmt::Formatter) -> fmt::Result { Ok(()) }
}
struct Fallible { r: Recorder, err: SrcErr }
impl TryRngCore for Fallible {
    type Error = SrcErr;
    fn try_next_u32(&mut self) -> Result<u32, SrcErr> { panic!() }
    fn try_next_u64(&mut self) -> Result<u64, SrcErr> { panic!() }
    fn try_fill_bytes(&mut self, dest: &mut [u8]) -> Result<(), SrcErr> {
        if self.r.fail { self.r.calls += 1; return Err(self.err); }
        self.r.fill_bytes(dest);
        Ok(())
    }
}
#[kani::proof]
#[kani::unwind(1026)]
#[kani::stub(IsaacCore::init, init_stub)]
fn isaac_from_rng_layout() {
    let mut src = Recorder { calls: 0, last_len: 0, bytes: kani::any(), fail: false };
    let core = IsaacCore::from_rng(&mut src);
    assert!(src.calls == 1 && src.last_len == 1024);
    let k: usize = kani::any();
    kani::assume(k < RAND_SIZE);
    assert!(core.mem[k].0 == le(&src.bytes, k));
    assert!(core.a.0 == 2);
}
#[kani::proof]
#[kani::unwind(1026)]
#[kani::stub(IsaacCore::init, init_stub)]
fn isaac_try_from_rng() {
    let mut src = Fallible { r: Recorder { calls: 0, last_len: 0, bytes: kani::any(), fail: kani::any() }, err: SrcErr(kani::any()) };
    let r = IsaacCore::try_from_rng(&mut src);
    assert!(src.r.calls == 1);
    match r {
        Ok(core) => {
            assert!(!src.r.fail);
            let k: usize = kani::any();
            kani::assume(k < RAND_SIZE);
            assert!(core.mem[k].0 == le(&src.r.bytes, k) && core.a.0 == 2);
        }
        Err(e) => assert!(src.r.fail && e == src.err),
    }
}

// ---- C17: Debug never shows state ---------------------------------------------------------------------------------
struct Sink { buf: [u8; 96], n: usize }
impl fmt::Write for Sink {
    fn write_str(&mut self, s: &str) -> fmt::Result {
        for b in s.bytes() {
            if self.n < 96 { self.buf[self.n] = b; }
            self.n += 1;
        }
        Ok(())
    }
}
#[kani::proof]
#[kani::unwind(260)]
fn isaac_core_debug_is_constant() {
    use core::fmt::Write;
    let a = any_core();
    let mut s = Sink { buf: [0; 96], n: 0 };
    write!(s, "{:?}", a).unwrap();
    let expect = b"IsaacCore {}";
    assert!(s.n == expect.len());
    let k: usize = kani::any();
    kani::assume(k < expect.len());
    assert!(s.buf[k] == expect[k]);
    let mut p = Sink { buf: [0; 96], n: 0 };
    write!(p, "{:#?}", a).unwrap();
    assert!(p.n == expect.len() && p.buf[k] == expect[k]);
}

// ---- C11: serde snapshot of the core and of the whole generator (needs `--features serde`) ------------------------
#[cfg(feature = "serde")]
include!(concat!(env!("RNGS_VERIF_DIR"), "/kani/incrate/tokfmt.rs"));

// (a) the core in an ARBITRARY state (all 259 words symbolic) through the derive output and isaac_array_serde
#[cfg(feature = "serde")]
#[kani::proof]
#[kani::unwind(262)]
fn isaac_core_serde_roundtrip() {
    let a = any_core();
    let toks = tokfmt::to_tokens(&a);
    assert!(toks.n == RAND_SIZE + 3);
    let b: IsaacCore = tokfmt::from_tokens(&toks);
    let k: usize = kani::any();
    kani::assume(k < RAND_SIZE);
    assert!(b.mem[k] == a.mem[k] && b.a == a.a && b.b == a.b && b.c == a.c);
}
