// A minimal serde data format for the ISAAC serde harnesses (C11): values are flattened into a fixed buffer of u64 tokens.
// The property is about the crates' Serialize/Deserialize impls (derive output + isaac_array_serde), not about a particular
// wire format; bincode's option layers make CBMC crawl (DESIGN section 2), this format does not allocate.
pub mod tokfmt {
    use core::fmt;
    use serde::de::{self, DeserializeSeed, SeqAccess, Visitor};
    use serde::ser::{self, Serialize};

    pub const CAP: usize = 600;
    #[derive(Debug)]
    pub struct Error;
    impl fmt::Display for Error {
        fn fmt(&self, _f: &mut fmt::Formatter) -> fmt::Result { Ok(()) }
    }
    impl ser::Error for Error { fn custom<T: fmt::Display>(_m: T) -> Self { Error } }
    impl de::Error for Error { fn custom<T: fmt::Display>(_m: T) -> Self { Error } }
    impl ser::StdError for Error {}

    pub struct Buf { pub t: [u64; CAP], pub n: usize }
    impl Buf {
        pub fn new() -> Buf { Buf { t: [0; CAP], n: 0 } }
        fn put(&mut self, v: u64) -> Result<(), Error> { if self.n >= CAP { return Err(Error); } self.t[self.n] = v; self.n += 1; Ok(()) }
    }
    pub struct Ser<'a>(pub &'a mut Buf);
    macro_rules! unsupported_ser { ($($f:ident($($a:ident: $t:ty),*) -> $r:ty;)*) => { $(fn $f(self, $($a: $t),*) -> Result<$r, Error> { Err(Error) })* } }
    impl<'a, 'b> ser::Serializer for &'b mut Ser<'a> {
        type Ok = (); type Error = Error;
        type SerializeSeq = ser::Impossible<(), Error>; type SerializeTuple = Self; type SerializeTupleStruct = Self;
        type SerializeTupleVariant = ser::Impossible<(), Error>; type SerializeMap = ser::Impossible<(), Error>;
        type SerializeStruct = Self; type SerializeStructVariant = ser::Impossible<(), Error>;
        fn serialize_bool(self, v: bool) -> Result<(), Error> { self.0.put(v as u64) }
        fn serialize_u8(self, v: u8) -> Result<(), Error> { self.0.put(v as u64) }
        fn serialize_u16(self, v: u16) -> Result<(), Error> { self.0.put(v as u64) }
        fn serialize_u32(self, v: u32) -> Result<(), Error> { self.0.put(v as u64) }
        fn serialize_u64(self, v: u64) -> Result<(), Error> { self.0.put(v) }
        fn serialize_newtype_struct<T: ?Sized + Serialize>(self, _n: &'static str, v: &T) -> Result<(), Error> { v.serialize(self) }
        fn serialize_tuple(self, _len: usize) -> Result<Self, Error> { Ok(self) }
        fn serialize_tuple_struct(self, _n: &'static str, _len: usize) -> Result<Self, Error> { Ok(self) }
        fn serialize_struct(self, _n: &'static str, _len: usize) -> Result<Self, Error> { Ok(self) }
        unsupported_ser! {
            serialize_i8(_v: i8) -> (); serialize_i16(_v: i16) -> (); serialize_i32(_v: i32) -> (); serialize_i64(_v: i64) -> ();
            serialize_f32(_v: f32) -> (); serialize_f64(_v: f64) -> (); serialize_char(_v: char) -> (); serialize_str(_v: &str) -> ();
            serialize_bytes(_v: &[u8]) -> (); serialize_none() -> (); serialize_unit() -> (); serialize_unit_struct(_n: &'static str) -> ();
            serialize_unit_variant(_n: &'static str, _i: u32, _v: &'static str) -> ();
            serialize_seq(_l: Option<usize>) -> ser::Impossible<(), Error>;
            serialize_tuple_variant(_n: &'static str, _i: u32, _v: &'static str, _l: usize) -> ser::Impossible<(), Error>;
            serialize_map(_l: Option<usize>) -> ser::Impossible<(), Error>;
            serialize_struct_variant(_n: &'static str, _i: u32, _v: &'static str, _l: usize) -> ser::Impossible<(), Error>;
        }
        fn serialize_some<T: ?Sized + Serialize>(self, _v: &T) -> Result<(), Error> { Err(Error) }
        fn serialize_newtype_variant<T: ?Sized + Serialize>(self, _n: &'static str, _i: u32, _v: &'static str, _x: &T) -> Result<(), Error> { Err(Error) }
        fn collect_str<T: ?Sized + fmt::Display>(self, _v: &T) -> Result<(), Error> { Err(Error) }
    }
    impl<'a, 'b> ser::SerializeTuple for &'b mut Ser<'a> {
        type Ok = (); type Error = Error;
        fn serialize_element<T: ?Sized + Serialize>(&mut self, v: &T) -> Result<(), Error> { v.serialize(&mut **self) }
        fn end(self) -> Result<(), Error> { Ok(()) }
    }
    impl<'a, 'b> ser::SerializeTupleStruct for &'b mut Ser<'a> {
        type Ok = (); type Error = Error;
        fn serialize_field<T: ?Sized + Serialize>(&mut self, v: &T) -> Result<(), Error> { v.serialize(&mut **self) }
        fn end(self) -> Result<(), Error> { Ok(()) }
    }
    impl<'a, 'b> ser::SerializeStruct for &'b mut Ser<'a> {
        type Ok = (); type Error = Error;
        fn serialize_field<T: ?Sized + Serialize>(&mut self, _k: &'static str, v: &T) -> Result<(), Error> { v.serialize(&mut **self) }
        fn end(self) -> Result<(), Error> { Ok(()) }
    }

    pub struct De<'a> { pub t: &'a [u64; CAP], pub pos: usize }
    impl<'a> De<'a> { fn get(&mut self) -> Result<u64, Error> { if self.pos >= CAP { return Err(Error); } let v = self.t[self.pos]; self.pos += 1; Ok(v) } }
    struct Seq<'a, 'b> { de: &'b mut De<'a>, left: usize }
    impl<'de, 'a, 'b> SeqAccess<'de> for Seq<'a, 'b> {
        type Error = Error;
        fn next_element_seed<T: DeserializeSeed<'de>>(&mut self, seed: T) -> Result<Option<T::Value>, Error> {
            if self.left == 0 { return Ok(None); }
            self.left -= 1;
            seed.deserialize(&mut *self.de).map(Some)
        }
    }
    macro_rules! unsupported_de { ($($f:ident)*) => { $(fn $f<V: Visitor<'de>>(self, _v: V) -> Result<V::Value, Error> { Err(Error) })* } }
    impl<'de, 'a, 'b> de::Deserializer<'de> for &'b mut De<'a> {
        type Error = Error;
        fn deserialize_bool<V: Visitor<'de>>(self, v: V) -> Result<V::Value, Error> { let x = self.get()?; v.visit_bool(x != 0) }
        fn deserialize_u8<V: Visitor<'de>>(self, v: V) -> Result<V::Value, Error> { let x = self.get()?; v.visit_u8(x as u8) }
        fn deserialize_u16<V: Visitor<'de>>(self, v: V) -> Result<V::Value, Error> { let x = self.get()?; v.visit_u16(x as u16) }
        fn deserialize_u32<V: Visitor<'de>>(self, v: V) -> Result<V::Value, Error> { let x = self.get()?; v.visit_u32(x as u32) }
        fn deserialize_u64<V: Visitor<'de>>(self, v: V) -> Result<V::Value, Error> { let x = self.get()?; v.visit_u64(x) }
        fn deserialize_newtype_struct<V: Visitor<'de>>(self, _n: &'static str, v: V) -> Result<V::Value, Error> { v.visit_newtype_struct(self) }
        fn deserialize_tuple<V: Visitor<'de>>(self, len: usize, v: V) -> Result<V::Value, Error> { v.visit_seq(Seq { de: self, left: len }) }
        fn deserialize_tuple_struct<V: Visitor<'de>>(self, _n: &'static str, len: usize, v: V) -> Result<V::Value, Error> { v.visit_seq(Seq { de: self, left: len }) }
        fn deserialize_struct<V: Visitor<'de>>(self, _n: &'static str, fields: &'static [&'static str], v: V) -> Result<V::Value, Error> { v.visit_seq(Seq { de: self, left: fields.len() }) }
        unsupported_de! { deserialize_any deserialize_i8 deserialize_i16 deserialize_i32 deserialize_i64 deserialize_f32 deserialize_f64 deserialize_char
            deserialize_str deserialize_string deserialize_bytes deserialize_byte_buf deserialize_option deserialize_unit deserialize_seq deserialize_map
            deserialize_identifier deserialize_ignored_any }
        fn deserialize_unit_struct<V: Visitor<'de>>(self, _n: &'static str, _v: V) -> Result<V::Value, Error> { Err(Error) }
        fn deserialize_enum<V: Visitor<'de>>(self, _n: &'static str, _vs: &'static [&'static str], _v: V) -> Result<V::Value, Error> { Err(Error) }
    }
    pub fn to_tokens<T: Serialize>(v: &T) -> Buf { let mut b = Buf::new(); v.serialize(&mut Ser(&mut b)).unwrap(); b }
    pub fn from_tokens<'de, T: de::Deserialize<'de>>(b: &Buf) -> T { let mut d = De { t: &b.t, pos: 0 }; T::deserialize(&mut d).unwrap() }
}
