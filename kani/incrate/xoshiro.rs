// harnesses for xoshiro (none yet)
